// Driver for C15 (spec/Ante.tla): replays TLC behaviours on the REAL gno.land application.
//
// Every behaviour gets its own fresh accounts (a: key known to the chain, b: funded but never
// signed, m: 2-of-3 multisig, a session key of a, a foreign key, a sink z). Each step's
// transaction record is realised on real bytes with real keys: every field of every signature
// record (chain id, account number, sequence, body, key, intactness, PubKey field, session
// address, multisignature shape) decides how the bytes are produced. Verdict observables:
// accept / reject of DeliverTx, and the projected sequences, stored public keys, session
// existence and balances read back through ABCI Query after every block.
//
// Behaviours are run in lock-step batches: block k of a batch carries the k-th block of every
// behaviour, so that one in-process application serves thousands of behaviours.
package main

import (
	"bufio"
	"encoding/json"
	"fmt"
	"os"
	"sort"
	"strings"

	abci "github.com/gnolang/gno/tm2/pkg/bft/abci/types"
	"github.com/gnolang/gno/tm2/pkg/amino"
	"github.com/gnolang/gno/tm2/pkg/crypto"
	"github.com/gnolang/gno/tm2/pkg/crypto/multisig"
	"github.com/gnolang/gno/tm2/pkg/crypto/secp256k1"
	"github.com/gnolang/gno/tm2/pkg/db/goleveldb"
	"github.com/gnolang/gno/tm2/pkg/sdk/auth"
	"github.com/gnolang/gno/tm2/pkg/sdk/bank"
	"github.com/gnolang/gno/tm2/pkg/std"

	"verifharness/appenv"
	"verifharness/mbt"
)

const (
	unit     = int64(1_000_000) // ugnot per spec unit
	start    = int64(20)
	setupFee = int64(500_000)
	gasWant  = int64(20_000_000)
)

type key struct {
	priv secp256k1.PrivKeySecp256k1
	pub  crypto.PubKey
	addr crypto.Address
}

func newKey(seed string) *key {
	p := secp256k1.GenPrivKeySecp256k1([]byte(seed))
	return &key{priv: p, pub: p.PubKey(), addr: p.PubKey().Address()}
}

// run is one behaviour with its private cast of accounts.
type run struct {
	idx     int
	beh     []mbt.Step
	a, b, x *key
	mk      [3]*key
	mpub    crypto.PubKey
	maddr   crypto.Address
	s       *key
	z       crypto.Address
	num     map[string]uint64 // account numbers of a, b, m, sa
	blk     []int             // block index of every step
	failed  bool
}

func (r *run) master(slot string) crypto.Address {
	switch slot {
	case "a":
		return r.a.addr
	case "b":
		return r.b.addr
	}
	return r.maddr
}

type world struct {
	e      *appenv.Env
	faucet *appenv.Account
	fseq   uint64
	fnum   uint64
	tag    string
}

func jsonFind(v any, field string) (any, bool) {
	switch m := v.(type) {
	case map[string]any:
		if x, ok := m[field]; ok {
			return x, true
		}
		for _, x := range m {
			if r, ok := jsonFind(x, field); ok {
				return r, true
			}
		}
	case []any:
		for _, x := range m {
			if r, ok := jsonFind(x, field); ok {
				return r, true
			}
		}
	}
	return nil, false
}

type accView struct {
	exists bool
	num    uint64
	seq    uint64
	haspub bool
}

func (w *world) queryAcc(path string) accView {
	res := w.e.App.Query(abci.RequestQuery{Path: path})
	var out accView
	if !res.IsOK() || len(res.Data) == 0 || string(res.Data) == "null" {
		return out
	}
	var v any
	if err := json.Unmarshal(res.Data, &v); err != nil {
		return out
	}
	if n, ok := jsonFind(v, "account_number"); ok {
		out.exists = true
		fmt.Sscan(fmt.Sprint(n), &out.num)
	}
	if s, ok := jsonFind(v, "sequence"); ok {
		fmt.Sscan(fmt.Sprint(s), &out.seq)
	}
	if p, ok := jsonFind(v, "public_key"); ok && p != nil {
		out.haspub = true
	}
	return out
}

func (w *world) acc(addr crypto.Address) accView { return w.queryAcc("auth/accounts/" + addr.String()) }
func (w *world) sess(master, s crypto.Address) accView {
	return w.queryAcc("auth/accounts/" + master.String() + "/session/" + s.String())
}

func send(from, to crypto.Address, amt int64) std.Msg {
	return bank.MsgSend{FromAddress: from, ToAddress: to, Amount: std.Coins{{Denom: "ugnot", Amount: amt}}}
}

func (w *world) newRun(idx int, beh []mbt.Step) *run {
	p := fmt.Sprintf("c15-%s-%d-", w.tag, idx)
	r := &run{idx: idx, beh: beh, a: newKey(p + "a"), b: newKey(p + "b"), x: newKey(p + "x"), s: newKey(p + "s"), num: map[string]uint64{}}
	var pubs []crypto.PubKey
	for i := range r.mk {
		r.mk[i] = newKey(fmt.Sprintf("%sm%d", p, i))
		pubs = append(pubs, r.mk[i].pub)
	}
	r.mpub = multisig.NewPubKeyMultisigThreshold(2, pubs)
	r.maddr = r.mpub.Address()
	r.z = crypto.AddressFromPreimage([]byte(p + "z"))
	// block index of every step: "same" stays in the block of the previous step
	b := -1
	for k, s := range beh {
		if k == 0 || s.Str("where") != "same" {
			b++
		}
		r.blk = append(r.blk, b)
	}
	return r
}

// ---------------------------------------------------------------- realising a transaction record

func (r *run) msgs(kind string, other bool) []std.Msg {
	amt := unit
	if other {
		amt = 2 * unit // the body that was signed is not the body that is submitted
	}
	switch kind {
	case "A", "S":
		return []std.Msg{send(r.a.addr, r.z, amt)}
	case "B":
		return []std.Msg{send(r.b.addr, r.z, amt)}
	case "AB":
		return []std.Msg{send(r.a.addr, r.z, amt), send(r.b.addr, r.z, unit)}
	case "AA":
		return []std.Msg{send(r.a.addr, r.z, amt), send(r.a.addr, r.z, unit)}
	case "M":
		return []std.Msg{send(r.maddr, r.z, amt)}
	case "R":
		if other {
			return []std.Msg{auth.MsgRevokeSession{Creator: r.a.addr, SessionKey: r.x.pub}}
		}
		return []std.Msg{auth.MsgRevokeSession{Creator: r.a.addr, SessionKey: r.s.pub}}
	}
	mbt.Die("unknown kind %q", kind)
	return nil
}

func mustSign(k *key, sb []byte) []byte {
	sig, err := k.priv.Sign(sb)
	if err != nil {
		panic(err)
	}
	return sig
}

func (r *run) signature(kind string, fee std.Fee, g mbt.Step) std.Signature {
	slot, as := g.Str("slot"), g.Str("as")
	id := slot
	if as == "session" {
		id = "sa"
	}
	num := r.num[id]
	if g.Str("accnum") == "other" {
		num += 7
	}
	chain := appenv.ChainID
	if g.Str("chain") == "other" {
		chain = "verif-other-chain"
	}
	signDoc := func(other bool) []byte {
		tx := std.Tx{Msgs: r.msgs(kind, other), Fee: fee}
		sb, err := tx.GetSignBytes(chain, num, uint64(g.Int("seq")))
		if err != nil {
			panic(err)
		}
		return sb
	}
	sb := signDoc(g.Str("body") == "other")
	var sig std.Signature
	// which key produces the bytes
	var single *key
	multi := false
	switch g.Str("key") {
	case "own":
		if as == "session" {
			single = r.s
		} else if slot == "a" {
			single = r.a
		} else if slot == "b" {
			single = r.b
		} else {
			multi = true
		}
	case "other":
		single = r.x
	case "cross":
		if as == "session" {
			single = r.a
		} else {
			single = r.s
		}
	}
	if multi {
		pubs := r.mpub.(multisig.PubKeyMultisigThreshold).PubKeys
		ms := multisig.NewMultisig(3)
		var who []int
		switch g.Str("ms") {
		case "2of3":
			who = []int{0, 2}
		case "3of3":
			who = []int{0, 1, 2}
		case "1of3":
			who = []int{1}
		case "2of3bad":
			who = []int{0, 1}
		default:
			mbt.Die("multisig shape %q", g.Str("ms"))
		}
		for n, i := range who {
			bz := mustSign(r.mk[i], sb)
			if g.Str("ms") == "2of3bad" && n == 1 {
				bz = mustSign(r.mk[i], signDoc(g.Str("body") != "other")) // a valid signature over something else
			}
			if !g.Bool("intact") && n == 0 {
				bz[9] ^= 0x20
			}
			if err := ms.AddSignatureFromPubKey(bz, pubs[i], pubs); err != nil {
				panic(err)
			}
		}
		sig.Signature = ms.Marshal()
		if g.Str("pk") == "with" {
			sig.PubKey = r.mpub
		}
	} else {
		sig.Signature = mustSign(single, sb)
		if !g.Bool("intact") {
			sig.Signature[9] ^= 0x20
		}
		if g.Str("pk") == "with" {
			sig.PubKey = single.pub
		}
	}
	switch as {
	case "session":
		sig.SessionAddr = r.s.addr
	case "unknownsess":
		sig.SessionAddr = r.x.addr
	}
	return sig
}

func (r *run) build(tx map[string]any) std.Tx {
	t := mbt.Step(tx)
	kind := t.Str("kind")
	fee := std.Fee{GasWanted: gasWant, GasFee: std.Coin{Denom: "ugnot", Amount: int64(t.Int("fee")) * unit}}
	out := std.Tx{Msgs: r.msgs(kind, false), Fee: fee}
	sigs, _ := tx["sigs"].([]any)
	for _, g := range sigs {
		out.Signatures = append(out.Signatures, r.signature(kind, fee, mbt.Step(g.(map[string]any))))
	}
	return out
}

// ---------------------------------------------------------------- projection

func (w *world) project(r *run) map[string]any {
	units := func(a crypto.Address) any {
		b := w.e.Balance(a)
		if b%unit != 0 {
			return fmt.Sprintf("%d ugnot (not a whole number of units)", b)
		}
		return b / unit
	}
	a, b, m := w.acc(r.a.addr), w.acc(r.b.addr), w.acc(r.maddr)
	sa := w.sess(r.a.addr, r.s.addr)
	return map[string]any{
		"seq":    map[string]any{"a": a.seq, "b": b.seq, "m": m.seq, "sa": sa.seq},
		"haspub": map[string]any{"a": a.haspub, "b": b.haspub, "m": m.haspub},
		"alive":  sa.exists,
		"bal":    map[string]any{"a": units(r.a.addr), "b": units(r.b.addr), "m": units(r.maddr), "z": units(r.z)},
	}
}

// after a revoked session the spec keeps the last sequence of the session; the chain has none
func normExp(st map[string]any) map[string]any {
	out := map[string]any{"haspub": st["haspub"], "alive": st["alive"], "bal": st["bal"]}
	seq := map[string]any{}
	for k, v := range st["seq"].(map[string]any) {
		seq[k] = v
	}
	if alive, _ := st["alive"].(bool); !alive {
		seq["sa"] = 0
	}
	out["seq"] = seq
	return out
}

// ---------------------------------------------------------------- batch

func (w *world) deliverOK(tx std.Tx, what string) {
	res := w.e.Deliver(tx)
	if !res.IsOK() {
		mbt.Die("%s failed: %s", what, res.Log)
	}
}

func (w *world) setup(runs []*run) {
	// block 1: the faucet funds a, b, m of every behaviour
	w.e.BeginBlock()
	for _, r := range runs {
		msgs := []std.Msg{send(w.faucet.Addr, r.a.addr, start*unit+setupFee), send(w.faucet.Addr, r.b.addr, start*unit), send(w.faucet.Addr, r.maddr, start*unit)}
		tx := appenv.SignTx(msgs, gasWant, 1, appenv.ChainID, w.faucet, w.fnum, w.fseq)
		w.fseq++
		w.deliverOK(tx, "funding")
	}
	w.e.EndBlockCommit()
	// block 2: a creates its session (this also stores a's public key; sequence 1)
	w.e.BeginBlock()
	for _, r := range runs {
		av := w.acc(r.a.addr)
		msg := auth.MsgCreateSession{Creator: r.a.addr, SessionKey: r.s.pub, AllowPaths: []string{"*"},
			SpendLimit: std.Coins{{Denom: "ugnot", Amount: 900 * unit}}}
		acct := &appenv.Account{Name: "a", Priv: r.a.priv, Addr: r.a.addr}
		tx := appenv.SignTx([]std.Msg{msg}, gasWant, setupFee, appenv.ChainID, acct, av.num, av.seq)
		w.deliverOK(tx, "session creation")
	}
	w.e.EndBlockCommit()
	for _, r := range runs {
		r.num["a"] = w.acc(r.a.addr).num
		r.num["b"] = w.acc(r.b.addr).num
		r.num["m"] = w.acc(r.maddr).num
		sv := w.sess(r.a.addr, r.s.addr)
		if !sv.exists {
			mbt.Die("session of behaviour %d was not created", r.idx)
		}
		r.num["sa"] = sv.num
	}
}

type mism struct {
	key, what string
	cs        any
}

// batch runs the behaviours in lock-step and returns the mismatches found (at most one per behaviour).
func (w *world) batch(behs [][]mbt.Step, base int) (out []*mism, steps int) {
	var runs []*run
	maxBlk := 0
	for i, b := range behs {
		r := w.newRun(base+i, b)
		runs = append(runs, r)
		if n := r.blk[len(r.blk)-1]; n > maxBlk {
			maxBlk = n
		}
	}
	w.setup(runs)
	for B := 0; B <= maxBlk; B++ {
		restart := false
		for _, r := range runs {
			for k, s := range r.beh {
				if r.blk[k] == B && s.Str("where") == "restart" && !r.failed {
					restart = true
				}
			}
		}
		if restart {
			// a node restart between blocks: new application object over the same database
			if err := w.e.Reopen(); err != nil {
				mbt.Die("reopen: %v", err)
			}
		}
		w.e.BeginBlock()
		touched := map[*run]int{}
		for _, r := range runs {
			if r.failed {
				continue
			}
			for k, s := range r.beh {
				if r.blk[k] != B {
					continue
				}
				tx := r.build(s["tx"].(map[string]any))
				var res abci.ResponseDeliverTx
				if p, val, st := mbt.Guard(func() { res = w.e.Deliver(tx) }); p {
					out = append(out, &mism{"C15:panic:" + s.Act(), fmt.Sprintf("DeliverTx panicked: %v at %s", val, mbt.ShortStack(st)), map[string]any{"steps": r.beh[:k+1]}})
					r.failed = true
					break
				}
				steps++
				reply := "reject"
				switch {
				case res.IsOK():
					reply = "accept"
				case res.GasWanted > 0:
					reply = "msgfail" // the ante handler passed, a message failed
				}
				if reply != s.Str("reply") {
					out = append(out, &mism{fmt.Sprintf("C15:%s:%s", verdictKey(s), s.Str("reply")),
						fmt.Sprintf("step %d %s: the chain answered %q, the spec %q (%s)", k, mbt.JS(dropSt(s)), reply, s.Str("reply"), strings.SplitN(res.Log, "\n", 2)[0]),
						map[string]any{"steps": r.beh[:k+1]}})
					r.failed = true
					break
				}
				touched[r] = k
			}
		}
		w.e.EndBlockCommit()
		for _, r := range runs {
			k, ok := touched[r]
			if !ok || r.failed {
				continue
			}
			obs := w.project(r)
			exp := normExp(r.beh[k]["st"].(map[string]any))
			if !mbt.Eq(obs, exp) {
				s := r.beh[k]
				out = append(out, &mism{fmt.Sprintf("C15:state:%s:%s", verdictKey(s), s.Str("reply")),
					fmt.Sprintf("after the block of step %d %s: state %s, spec %s", k, mbt.JS(dropSt(s)), mbt.JS(obs), mbt.JS(exp)),
					map[string]any{"steps": r.beh[:k+1]}})
				r.failed = true
			}
		}
	}
	return out, steps
}

// verdictKey names the class of the failing input: kind / corruption (or resubmission + where)
func verdictKey(s mbt.Step) string {
	if s.Act() == "Resubmit" {
		return "Resubmit:" + s.Str("where")
	}
	return fmt.Sprintf("%s:%s:%s", s.Str("k"), s.Str("mu"), s.Str("tm"))
}

func dropSt(s mbt.Step) map[string]any {
	o := map[string]any{}
	for k, v := range s {
		if k != "st" && k != "tx" {
			o[k] = v
		}
	}
	return o
}

func newWorld(tag string) *world {
	f := appenv.NewAccount("c15-faucet")
	// goleveldb rather than memdb: every ABCI query opens an immutable view, and memdb sorts its
	// whole key set for each iterator it hands out (measured: 3.5 ms per query)
	dir, err := os.MkdirTemp("", "c15db")
	if err != nil {
		mbt.Die("tmp: %v", err)
	}
	db, err := goleveldb.NewGoLevelDB("app", dir)
	if err != nil {
		mbt.Die("db: %v", err)
	}
	e, err := appenv.New(appenv.Options{DB: db, MaxGas: 100_000_000_000, Balances: map[crypto.Address]int64{f.Addr: 4_000_000_000_000_000}})
	if err != nil {
		mbt.Die("new app: %v", err)
	}
	w := &world{e: e, faucet: f, tag: tag}
	av := w.acc(f.Addr)
	w.fnum, w.fseq = av.num, av.seq
	return w
}

func main() {
	f := mbt.ParseFlags()
	if f.Mode == "signers" {
		signersMode(f)
		mbt.Flush()
		return
	}
	fh, err := os.Open(f.In)
	if err != nil {
		mbt.Die("%v", err)
	}
	var behs [][]mbt.Step
	sc := bufio.NewScanner(fh)
	sc.Buffer(make([]byte, 1<<20), 1<<28)
	for sc.Scan() {
		if len(sc.Bytes()) == 0 {
			continue
		}
		var beh []mbt.Step
		if err := json.Unmarshal(sc.Bytes(), &beh); err != nil {
			mbt.Die("bad behaviour line: %v", err)
		}
		if len(beh) > 0 {
			behs = append(behs, beh)
		}
	}
	fh.Close()
	size := f.N
	if size <= 0 {
		size = 1500
	}
	w := newWorld("r")
	var okc, steps, flaky int
	seen := map[string]bool{}
	for base := 0; base < len(behs); base += size {
		end := base + size
		if end > len(behs) {
			end = len(behs)
		}
		mis, n := w.batch(behs[base:end], base)
		steps += n
		okc += end - base - len(mis)
		if len(mis) == 0 {
			continue
		}
		// soundness rule 4: re-run the failing behaviours once, alone, on a fresh application
		sort.Slice(mis, func(i, j int) bool { return mis[i].key < mis[j].key })
		var again [][]mbt.Step
		for _, m := range mis {
			if !seen[m.key] && len(again) < 12 {
				seen[m.key] = true
				var b []mbt.Step
				for _, x := range m.cs.(map[string]any)["steps"].([]mbt.Step) {
					b = append(b, x)
				}
				again = append(again, b)
			}
		}
		if len(again) > 0 {
			w2 := newWorld("f")
			mis2, _ := w2.batch(again, 0)
			for _, m := range mis2 {
				mbt.Mismatch(m.key, m.what, m.cs)
			}
			flaky += len(again) - len(mis2)
		}
	}
	for i := 0; i < len(behs) && i < 2; i++ {
		mbt.Sample(behs[i])
	}
	mbt.Summary(map[string]any{"behaviours": len(behs), "replays": len(behs), "replays_ok": okc, "steps": steps, "flaky": flaky})
	mbt.Flush()
	_ = amino.MustMarshal
}
