// Driver for C32 (spec/BlockValidation.tla): builds, for every case TLC enumerated, the valid block
// of the situation with the case's mutations applied (real signatures, real hashes), round-trips it
// through amino (a decodable block) and compares accept/reject of the real State.ValidateBlock with
// the spec's verdict; a panic is a violation.
package main

import (
	"bytes"
	"fmt"
	"runtime"
	"sort"
	"strings"
	"sync"
	"sync/atomic"
	"time"

	"github.com/gnolang/gno/tm2/pkg/amino"
	sm "github.com/gnolang/gno/tm2/pkg/bft/state"
	"github.com/gnolang/gno/tm2/pkg/bft/types"
	typesver "github.com/gnolang/gno/tm2/pkg/bft/types/version"
	"github.com/gnolang/gno/tm2/pkg/crypto"
	"github.com/gnolang/gno/tm2/pkg/crypto/ed25519"

	"verifharness/mbt"
)

const (
	chainID = "verif-chain"
	poolP   = 7 // pool size of the spec (MaxN); pool[poolP] = spare signer, pool[poolP+1] = unknown address
	nomR    = 1
)

var (
	pool []ed25519.PrivKeyEd25519
	t0   = time.Unix(1700000000, 0).UTC() // state.LastBlockTime
)

func init() {
	for i := 0; i < poolP+2; i++ {
		pool = append(pool, ed25519.GenPrivKeyFromSecret([]byte(fmt.Sprintf("verif-val-%d", i))))
	}
	sort.Slice(pool, func(i, j int) bool {
		return pool[i].PubKey().Address().Compare(pool[j].PubKey().Address()) < 0
	})
}

func h32(s string) []byte { b := make([]byte, 32); copy(b, s); return b }

func blockID(name string) types.BlockID {
	if name == "nil" {
		return types.BlockID{}
	}
	return types.BlockID{Hash: h32("block-" + name), PartsHeader: types.PartSetHeader{Total: 1, Hash: h32("parts-" + name)}}
}

func mkSet(pw []int64) *types.ValidatorSet {
	var vals []*types.Validator
	for k, p := range pw {
		if p > 0 {
			vals = append(vals, types.NewValidator(pool[k].PubKey(), p))
		}
	}
	return types.NewValidatorSet(vals)
}

type situation struct {
	name    string
	genesis bool
	state   sm.State
	lastTot int64
	n       int // size of LastValidators (= pool keys 0..n-1)
}

func mkSituation(name string) *situation {
	st := sm.State{
		BlockVersion: typesver.BlockVersion, AppVersion: "app-1", ChainID: chainID,
		InitialHeight: 1, LastBlockTime: t0, ConsensusParams: types.DefaultConsensusParams(),
		AppHash: h32("apphash"),
	}
	s := &situation{name: name}
	switch name {
	case "gen1":
		s.genesis = true
		st.Validators, st.NextValidators, st.LastValidators = mkSet([]int64{1, 2, 3, 4}), mkSet([]int64{1, 2, 3, 4}), types.NewValidatorSet(nil)
	case "gen5":
		s.genesis = true
		st.InitialHeight, st.LastBlockHeight = 5, 4
		st.Validators, st.NextValidators, st.LastValidators = mkSet([]int64{1, 2, 3, 0}), mkSet([]int64{1, 2, 3, 0}), types.NewValidatorSet(nil)
	case "second":
		st.LastBlockHeight, st.LastBlockTotalTx, st.LastBlockID = 1, 10, blockID("A")
		st.LastResultsHash = h32("results")
		st.Validators, st.NextValidators, st.LastValidators = mkSet([]int64{2, 2, 3, 4}), mkSet([]int64{2, 2, 3, 5}), mkSet([]int64{1, 2, 3, 4})
	case "later":
		st.LastBlockHeight, st.LastBlockTotalTx, st.LastBlockID = 7, 10, blockID("A")
		st.Validators, st.NextValidators, st.LastValidators = mkSet([]int64{10, 1, 1, 0}), mkSet([]int64{10, 1, 1, 0}), mkSet([]int64{10, 1, 1, 1})
	default:
		pw, ok := quorumSits[name]
		if !ok {
			mbt.Die("unknown situation %q", name)
		}
		// quorum situations: block 4 of a chain whose previous validator set has the given powers
		st.LastBlockHeight, st.LastBlockTotalTx, st.LastBlockID = 3, 10, blockID("A")
		st.Validators, st.NextValidators, st.LastValidators = mkSet([]int64{1, 1, 1, 1}), mkSet([]int64{1, 1, 1, 1}), mkSet(pw)
	}
	s.n = st.LastValidators.Size()
	s.lastTot = st.LastBlockTotalTx
	s.state = st
	return s
}

// previous validator sets of the quorum situations (MCBlockValidation.QSits)
var quorumSits = map[string][]int64{
	"q4": {1, 1, 1, 1}, "q5": {1, 1, 1, 1, 1}, "q7": {1, 1, 1, 1, 1, 1, 1},
	"q113": {1, 1, 3}, "q233": {2, 3, 3}, "q1113": {1, 1, 1, 3},
}

var sitNames = []string{"gen1", "gen5", "second", "later", "q4", "q5", "q7", "q113", "q233", "q1113"}

// ---------------------------------------------------------------- precommits (classes of the spec)
type eclass struct {
	blk               string
	hd, rd            int
	prevote, corrupt  bool
	sgn               int
	addr              string
	idx               string // "", "out", "other"
	ts                string // "", "late", "old"
	negParts, noSig   bool
}

var classes = map[string]eclass{
	"ok": {blk: "A"}, "okA": {blk: "A"}, "okB": {blk: "B"}, "okNil": {blk: "nil"},
	"badA": {blk: "A", corrupt: true}, "badB": {blk: "B", corrupt: true}, "wsA": {blk: "A", sgn: 1},
	"h1A": {blk: "A", hd: 1}, "r1A": {blk: "A", rd: 1}, "pvA": {blk: "A", prevote: true},
	"adA": {blk: "A", addr: "next"}, "auA": {blk: "A", addr: "unknown"},
	"npB": {blk: "B", corrupt: true, negParts: true}, "nosigA": {blk: "A", noSig: true},
	"ixA": {blk: "A", idx: "out"}, "ix1A": {blk: "A", idx: "other"}, "ixtsA": {blk: "A", idx: "other", ts: "late"},
	"tsA": {blk: "A", ts: "late"}, "tsOldA": {blk: "A", ts: "old"},
}

type sigKey struct {
	pos int
	cls string
	h   int64
}

var (
	sigCache   = map[sigKey]*types.CommitSig{}
	sigCacheMu sync.Mutex
)

// entry: the precommit of class cls by validator pool[pos] at commit index idx (0-based), nominal height h.
func entry(pos int, cls string, idx int, h int64) *types.CommitSig {
	if cls == "nil" {
		return nil
	}
	k := sigKey{pos, cls, h}
	sigCacheMu.Lock()
	c := sigCache[k]
	sigCacheMu.Unlock()
	if c == nil {
		c = mkEntry(pos, cls, idx, h)
		sigCacheMu.Lock()
		sigCache[k] = c
		sigCacheMu.Unlock()
	}
	cp := *c
	switch classes[cls].idx {
	case "out":
		cp.ValidatorIndex = idx + 7
	case "other":
		cp.ValidatorIndex = 0
		if idx == 0 {
			cp.ValidatorIndex = 1
		}
	default:
		cp.ValidatorIndex = idx
	}
	return &cp
}

func mkEntry(pos int, cls string, idx int, h int64) *types.CommitSig {
	ec, ok := classes[cls]
	if !ok {
		mbt.Die("unknown entry class %q", cls)
	}
	i := int64(idx + 1) // timestamps are by 1-based commit index (TS(c, i) of the spec); pos == idx for idx < N
	ts := t0.Add(time.Duration(10*i) * time.Second)
	switch ec.ts {
	case "late":
		ts = t0.Add(time.Duration(100+i) * time.Second)
	case "old":
		ts = t0.Add(time.Duration(-5-i) * time.Second)
	}
	v := &types.Vote{Type: types.PrecommitType, Height: h + int64(ec.hd), Round: nomR + ec.rd, BlockID: blockID(ec.blk), Timestamp: ts}
	if ec.prevote {
		v.Type = types.PrevoteType
	}
	switch ec.addr {
	case "next":
		v.ValidatorAddress = pool[(pos+1)%poolP].PubKey().Address()
	case "unknown":
		v.ValidatorAddress = pool[poolP+1].PubKey().Address()
	default:
		v.ValidatorAddress = pool[pos].PubKey().Address()
	}
	signer := pool[pos]
	if ec.sgn == 1 {
		signer = pool[(pos+1)%poolP]
	}
	sig, err := signer.Sign(v.SignBytes(chainID))
	if err != nil {
		panic(err)
	}
	if ec.corrupt {
		sig[9] ^= 0x10
	}
	if ec.noSig {
		sig = nil
	}
	if ec.negParts {
		v.BlockID.PartsHeader.Total = -1
	}
	v.Signature = sig
	return v.CommitSig()
}

// ---------------------------------------------------------------- block construction
func baseTxs(n int) types.Txs {
	var txs types.Txs
	for i := 0; i < n; i++ {
		txs = append(txs, types.Tx(fmt.Sprintf("tx-%d", i)))
	}
	return txs
}

func (s *situation) commit(m map[string]string) *types.Commit {
	if m["lc"] == "nil" {
		return nil
	}
	h := s.state.LastBlockHeight
	var pcs []*types.CommitSig
	cb := "A"
	if s.genesis {
		cb = "nil"
		if m["lclen"] == "long" {
			pcs = append(pcs, entry(0, "ok", 0, h))
		}
	} else {
		n := s.n
		if m["lclen"] == "short" {
			n--
		}
		for i := 0; i < n; i++ {
			c := m[fmt.Sprintf("e%d", i+1)]
			if c == "" {
				c = "ok"
			}
			pcs = append(pcs, entry(i, c, i, h))
		}
		if m["lclen"] == "long" {
			pcs = append(pcs, entry(poolP, "ok", poolP, h)) // spare signer
		}
	}
	if v, ok := m["cbid"]; ok {
		cb = v
	}
	return types.NewCommit(blockID(cb), pcs)
}

func hashClass(cls string, okVal, staleVal []byte) []byte {
	switch cls {
	case "", "ok":
		return okVal
	case "stale":
		return staleVal
	case "other":
		return h32("some-other-hash")
	case "badlen":
		return []byte("short")
	case "empty":
		return nil
	case "long":
		return append(h32("some-other-hash"), []byte("and-more")...)
	}
	mbt.Die("unknown hash class %q", cls)
	return nil
}

func (s *situation) build(m map[string]string, timeOff int) *types.Block {
	st := s.state
	ntx := 2
	switch m["txs"] {
	case "extra":
		ntx = 3
	case "none":
		ntx = 0
	}
	b := &types.Block{Data: types.Data{Txs: baseTxs(ntx)}, LastCommit: s.commit(m)}
	h := &b.Header
	h.Version, h.ChainID, h.AppVersion = st.BlockVersion, st.ChainID, st.AppVersion
	if m["version"] == "other" {
		h.Version = "v9.9.9"
	}
	if m["appver"] == "other" {
		h.AppVersion = "app-2"
	}
	switch m["chain"] {
	case "other":
		h.ChainID = "other-chain"
	case "toolong":
		h.ChainID = strings.Repeat("c", types.MaxChainIDLen+1)
	}
	h.Height = st.LastBlockHeight + 1
	switch m["height"] {
	case "plus":
		h.Height++
	case "minus":
		h.Height--
	case "zero":
		h.Height = 0
	case "neg":
		h.Height = -3
	}
	h.Time = t0.Add(time.Duration(timeOff) * time.Second)
	h.NumTxs = int64(ntx)
	switch m["numtxs"] {
	case "stale":
		h.NumTxs = 2
	case "plus":
		h.NumTxs++
	}
	h.TotalTxs = s.lastTot + int64(ntx)
	switch m["totaltxs"] {
	case "stale":
		h.TotalTxs = s.lastTot + 2
	case "plus":
		h.TotalTxs++
	case "neg":
		h.TotalTxs = -1
	}
	h.LastBlockID = st.LastBlockID
	switch m["lbid"] {
	case "otherhash":
		h.LastBlockID = blockID("X")
	case "otherparts":
		h.LastBlockID = types.BlockID{Hash: st.LastBlockID.Hash, PartsHeader: types.PartSetHeader{Total: 2, Hash: st.LastBlockID.PartsHeader.Hash}}
	case "zero":
		h.LastBlockID = types.BlockID{}
	case "badhash":
		h.LastBlockID = types.BlockID{Hash: []byte("short"), PartsHeader: st.LastBlockID.PartsHeader}
	case "negparts":
		h.LastBlockID = types.BlockID{Hash: st.LastBlockID.Hash, PartsHeader: types.PartSetHeader{Total: -1, Hash: st.LastBlockID.PartsHeader.Hash}}
	}
	var lcHash []byte
	if b.LastCommit != nil {
		cp := *b.LastCommit // hash without memoising inside the object handed to the code
		lcHash = (&cp).Hash()
	}
	h.LastCommitHash = hashClass(m["lchash"], lcHash, s.commit(map[string]string{}).Hash())
	d := types.Data{Txs: baseTxs(ntx)}
	d2 := types.Data{Txs: baseTxs(2)}
	h.DataHash = hashClass(m["datahash"], d.Hash(), d2.Hash())
	h.ValidatorsHash = hashClass(m["valhash"], st.Validators.Hash(), nil)
	h.NextValidatorsHash = hashClass(m["nextvalhash"], st.NextValidators.Hash(), nil)
	h.ConsensusHash = hashClass(m["conshash"], st.ConsensusParams.Hash(), nil)
	h.AppHash = hashClass(m["apphash"], st.AppHash, nil)
	h.LastResultsHash = hashClass(m["reshash"], st.LastResultsHash, nil)
	h.ProposerAddress = pool[0].PubKey().Address()
	switch m["proposer"] {
	case "othermember":
		h.ProposerAddress = pool[1].PubKey().Address()
	case "lastonly":
		h.ProposerAddress = pool[3].PubKey().Address()
	case "unknown":
		h.ProposerAddress = pool[poolP+1].PubKey().Address()
	case "zero":
		h.ProposerAddress = crypto.Address{}
	}
	return b
}

// selfCheck: the unmutated block of every situation is what State.MakeBlock produces and is accepted.
func (s *situation) selfCheck() {
	var off int
	if !s.genesis {
		mt := sm.MedianTime(s.commit(map[string]string{}), s.state.LastValidators)
		off = int(mt.Sub(t0) / time.Second)
	}
	b := s.build(map[string]string{}, off)
	mb, _ := s.state.MakeBlock(s.state.LastBlockHeight+1, baseTxs(2), s.commit(map[string]string{}), pool[0].PubKey().Address())
	if !bytes.Equal(b.Hash(), mb.Hash()) {
		mbt.Die("harness: base block of %s differs from State.MakeBlock", s.name)
	}
	if err := s.state.ValidateBlock(b); err != nil {
		mbt.Die("harness: base block of %s rejected: %v", s.name, err)
	}
}

func panicKey(val any, stack string) string {
	s := fmt.Sprint(val)
	switch {
	case strings.Contains(s, "out of canonical uint32 range"):
		return "panic:PartSetHeader.Total-out-of-range-in-sign-bytes"
	case strings.Contains(s, "nil pointer") && strings.Contains(stack, "MedianTime"):
		return "panic:MedianTime-ValidatorIndex-out-of-range"
	case strings.Contains(s, "nil pointer"):
		return "panic:nil-pointer"
	case strings.Contains(s, "index out of range"):
		return "panic:index-out-of-range"
	}
	return "panic:other"
}

var (
	reported   = map[string]int{}
	reportedMu sync.Mutex
)

func report(key, what string, c any) {
	reportedMu.Lock()
	reported[key]++
	n := reported[key]
	reportedMu.Unlock()
	if n <= 5 {
		mbt.Mismatch(key, what, c)
	}
}

type counters struct{ cases, ok, accepts, decodable, nontrivial int64 }

func replay(s mbt.Step, sits map[string]*situation, cnt *counters) {
	sit := sits[s.Str("sit")]
	m := map[string]string{}
	usesIdx := false
	for _, x := range s["muts"].([]any) {
		mu := mbt.Step(x.(map[string]any))
		m[mu.Str("f")] = mu.Str("v")
		if c, ok := classes[mu.Str("v")]; ok && c.idx != "" && strings.HasPrefix(mu.Str("f"), "e") {
			usesIdx = true
		}
	}
	if len(m) > 0 {
		atomic.AddInt64(&cnt.nontrivial, 1)
	}
	b := sit.build(m, s.Int("time"))
	// a decodable block: what the code validates is the block decoded from its wire encoding
	if bz, err := amino.Marshal(b); err == nil {
		b2 := new(types.Block)
		if err := amino.Unmarshal(bz, b2); err == nil {
			b = b2
			atomic.AddInt64(&cnt.decodable, 1)
		}
	}
	atomic.AddInt64(&cnt.cases, 1)
	cs := map[string]any{"steps": []mbt.Step{s}}
	var err error
	if p, val, stk := mbt.Guard(func() { err = sit.state.ValidateBlock(b) }); p {
		report("C32:"+panicKey(val, stk), fmt.Sprintf("ValidateBlock panicked (spec: %s/%s) on %s %s: %v at %s",
			s.Str("reply"), s.Str("why"), s.Str("sit"), mbt.JS(s["muts"]), val, mbt.ShortStack(stk)), cs)
		return
	}
	reply := "accept"
	if err != nil {
		reply = "reject"
	} else {
		atomic.AddInt64(&cnt.accepts, 1)
	}
	if reply != s.Str("reply") {
		key := fmt.Sprintf("C32:code-%ss-spec-%ss", reply, s.Str("reply"))
		if reply == "accept" {
			key += ":" + s.Str("why")
		}
		if usesIdx {
			key += ":unsigned-ValidatorIndex-weights-median"
		}
		report(key, fmt.Sprintf("%s %s (block time %+ds): code %s (err=%v), spec %s (%s)", s.Str("sit"), mbt.JS(s["muts"]), s.Int("time"), reply, err, s.Str("reply"), s.Str("why")), cs)
		return
	}
	atomic.AddInt64(&cnt.ok, 1)
}

func main() {
	f := mbt.ParseFlags()
	behs, err := mbt.ReadBehaviours(f.In)
	if err != nil {
		mbt.Die("%v", err)
	}
	sits := map[string]*situation{}
	for _, n := range sitNames {
		sits[n] = mkSituation(n)
		sits[n].selfCheck()
	}
	var cnt counters
	var wg sync.WaitGroup
	nw := runtime.NumCPU()
	for w := 0; w < nw; w++ {
		wg.Add(1)
		go func(w int) {
			defer wg.Done()
			local := map[string]*situation{} // ValidatorSet is not goroutine-safe (cached total): one state per worker
			for _, n := range sitNames {
				local[n] = mkSituation(n)
			}
			for i := w; i < len(behs); i += nw {
				replay(behs[i][0], local, &cnt)
			}
		}(w)
	}
	wg.Wait()
	ns := 0
	for i := 0; i < len(behs) && ns < 4; i++ {
		if n := len(behs[i][0]["muts"].([]any)); n == 2 && (ns%2 == 0) == (behs[i][0].Str("reply") == "accept") {
			mbt.Sample(behs[i][0])
			ns++
		}
	}
	mbt.Summary(map[string]any{"cases": cnt.cases, "replays": cnt.cases, "replays_ok": cnt.ok, "accepts": cnt.accepts,
		"decodable": cnt.decodable, "nontrivial": cnt.nontrivial})
	mbt.Flush()
}
