// Driver for C53 (genesis application is deterministic and representation-independent):
// builds ONE seeded genesis document, applies it through the real InitChainer either in memory
// (GnoGenesisState) or streamed from disk (LoadStreamingGenesisDoc -> *GenesisStateRef), commits,
// runs one probing block, and writes per-step hashes/results as NDJSON for spec/ReplayPair.tla.
package main

import (
	"bufio"
	"encoding/hex"
	"encoding/json"
	"fmt"
	"math/rand"
	"os"
	"path/filepath"
	"strings"
	"time"

	"github.com/gnolang/gno/gno.land/pkg/gnoland"
	"github.com/gnolang/gno/gno.land/pkg/sdk/vm"
	"github.com/gnolang/gno/gnovm/pkg/gnoenv"
	abci "github.com/gnolang/gno/tm2/pkg/bft/abci/types"
	bft "github.com/gnolang/gno/tm2/pkg/bft/types"
	"github.com/gnolang/gno/tm2/pkg/amino"
	"github.com/gnolang/gno/tm2/pkg/crypto"
	"github.com/gnolang/gno/tm2/pkg/db/memdb"
	"github.com/gnolang/gno/tm2/pkg/events"
	"github.com/gnolang/gno/tm2/pkg/log"
	"github.com/gnolang/gno/tm2/pkg/sdk"
	"github.com/gnolang/gno/tm2/pkg/sdk/bank"
	"github.com/gnolang/gno/tm2/pkg/std"
	"github.com/gnolang/gno/tm2/pkg/store/types"

	"verifharness/appenv"
	"verifharness/mbt"
)

const chainID = "verif-genesis"

const counterSrc = `package counter

import (
	"chain/runtime"
	"strconv"
	"time"
)

var n int
var log []string

func Add(cur realm, k int) int { n += k; log = append(log, "add"); return n }
func Fail(cur realm)           { n = 999; panic("genesis failure") }

// Stamp records the block time and height the transaction ran under (genesis tx metadata can override both)
func Stamp(cur realm) {
	log = append(log, "t="+strconv.FormatInt(time.Now().Unix(), 10)+"/h="+strconv.FormatInt(runtime.ChainHeight(), 10))
}
func Render(path string) string {
	s := ""
	for _, l := range log {
		s += l + ","
	}
	return s
}
func Get() int { return n }
`

const libSrc = `package lib

func Double(x int) int { return 2 * x }
`

const userSrc = `package user

import (
	"gno.land/p/verif/glib"
	"gno.land/r/verif/gcounter"
)

var seen int

func Bump(cur realm, k int) int {
	seen = gcounter.Add(cross(cur), glib.Double(k))
	return seen
}
`

func buildGenesis(rng *rand.Rand) (gnoland.GnoGenesisState, map[string]any) {
	gs := gnoland.DefaultGenState()
	deployer := appenv.NewAccount("gdeployer")
	users := []*appenv.Account{appenv.NewAccount("g1"), appenv.NewAccount("g2"), appenv.NewAccount("g3")}
	desc := map[string]any{}
	// balances: 1-5 entries, possibly the same address twice
	gs.Balances = append(gs.Balances, gnoland.Balance{Address: deployer.Addr, Amount: std.Coins{{Denom: "ugnot", Amount: 900_000_000}}})
	nb := rng.Intn(5)
	for i := 0; i < nb; i++ {
		u := users[rng.Intn(len(users))]
		gs.Balances = append(gs.Balances, gnoland.Balance{Address: u.Addr, Amount: std.Coins{{Denom: "ugnot", Amount: int64(1_000_000 + rng.Intn(1000))}}})
	}
	desc["balances"] = len(gs.Balances)
	fee := std.Fee{GasWanted: 100_000_000, GasFee: std.Coin{Denom: "ugnot", Amount: 1_000_000}}
	metaKinds := map[string]int{}
	// every genesis tx carries one of the metadata shapes the InitChainer distinguishes (none / timestamp override /
	// failed-on-source (skipped) / historical with height override / migration-style provenance only)
	add := func(msgs ...std.Msg) {
		var md *gnoland.GnoTxMetadata
		kind := "none"
		switch k := rng.Intn(20); {
		case k < 8:
		case k < 11:
			kind = "timestamp"
			md = &gnoland.GnoTxMetadata{Timestamp: int64(1_600_000_000 + rng.Intn(1000))}
		case k < 13:
			kind = "failed"
			md = &gnoland.GnoTxMetadata{Timestamp: int64(1_600_000_000 + rng.Intn(1000)), Failed: true}
		case k < 16:
			kind = "historical"
			md = &gnoland.GnoTxMetadata{Timestamp: int64(1_500_000_000 + rng.Intn(1000)), BlockHeight: int64(10 + rng.Intn(90)), GasUsed: int64(rng.Intn(100000)), GasWanted: 100_000_000, Source: gnoland.SourceHistorical}
		case k < 18:
			kind = "historical-failed"
			md = &gnoland.GnoTxMetadata{Timestamp: int64(1_500_000_000 + rng.Intn(1000)), BlockHeight: int64(10 + rng.Intn(90)), Failed: true, Source: gnoland.SourceHistorical}
		default:
			kind = "provenance-only"
			md = &gnoland.GnoTxMetadata{Source: gnoland.SourceMigration, Note: "verif"}
		}
		metaKinds[kind]++
		gs.Txs = append(gs.Txs, gnoland.TxWithMetadata{Tx: std.Tx{Msgs: msgs, Fee: fee, Signatures: []std.Signature{{}}}, Metadata: md})
	}
	pkgs := []appenv.Pkg{
		{Path: "gno.land/r/verif/gcounter", Files: map[string]string{"counter.gno": strings.Replace(counterSrc, "package counter", "package gcounter", 1)}},
		{Path: "gno.land/p/verif/glib", Files: map[string]string{"lib.gno": strings.Replace(libSrc, "package lib", "package glib", 1)}},
		{Path: "gno.land/r/verif/guser", Files: map[string]string{"user.gno": strings.Replace(userSrc, "package user", "package guser", 1)}},
	}
	np := []int{0, 1, 2, 3, 3, 3}[rng.Intn(6)] // mostly all three packages, sometimes a missing dependency
	for i := 0; i < np; i++ {
		add(appenv.AddPkgMsg(deployer.Addr, pkgs[i]))
	}
	desc["packages"] = np
	kinds := []string{}
	for i, n := 0, rng.Intn(8); i < n; i++ {
		switch rng.Intn(7) {
		case 5, 6:
			add(vm.NewMsgCall(deployer.Addr, nil, "gno.land/r/verif/gcounter", "Stamp", nil))
			kinds = append(kinds, "stamp")
		case 0:
			add(vm.NewMsgCall(deployer.Addr, nil, "gno.land/r/verif/gcounter", "Add", []string{fmt.Sprint(1 + rng.Intn(9))}))
			kinds = append(kinds, "call")
		case 1:
			add(vm.NewMsgCall(deployer.Addr, nil, "gno.land/r/verif/gcounter", "Fail", nil)) // fails (or package missing)
			kinds = append(kinds, "fail")
		case 2:
			add(vm.NewMsgCall(deployer.Addr, nil, "gno.land/r/verif/guser", "Bump", []string{fmt.Sprint(rng.Intn(5))}))
			kinds = append(kinds, "cross")
		case 3:
			add(bank.MsgSend{FromAddress: deployer.Addr, ToAddress: users[rng.Intn(3)].Addr, Amount: std.Coins{{Denom: "ugnot", Amount: int64(1 + rng.Intn(500))}}})
			kinds = append(kinds, "send")
		case 4:
			add(appenv.AddPkgMsg(deployer.Addr, pkgs[0])) // duplicate or first deployment
			kinds = append(kinds, "addpkg")
		}
	}
	desc["txs"] = kinds
	desc["metadata"] = metaKinds
	// parameter overrides
	if rng.Intn(2) == 0 {
		gs.Auth.Params.MaxMemoBytes = int64(1000 + rng.Intn(5000))
		desc["auth_override"] = true
	}
	if rng.Intn(2) == 0 {
		gs.Auth.Params.TxSigLimit = int64(3 + rng.Intn(5))
	}
	return gs, desc
}

func main() {
	f := mbt.ParseFlags()
	mode := "mem"
	if strings.Contains(f.Extra, "stream") {
		mode = "stream"
	}
	initialHeight := int64(0)
	rng := rand.New(rand.NewSource(f.Seed))
	if rng.Intn(3) == 0 {
		initialHeight = 5
	}
	gs, desc := buildGenesis(rng)
	dir, err := os.MkdirTemp("", "genesis")
	if err != nil {
		mbt.Die("%v", err)
	}
	defer os.RemoveAll(dir)
	var appState any = gs
	if mode == "stream" {
		src := filepath.Join(dir, "genesis.json")
		doc := &bft.GenesisDoc{ChainID: chainID, AppState: gs, GenesisTime: time.Unix(1_700_000_000, 0).UTC()}
		if err := doc.SaveAs(src); err != nil {
			mbt.Die("save genesis: %v", err)
		}
		ldoc, err := gnoland.LoadStreamingGenesisDoc(src, filepath.Join(dir, "cache"), nil)
		if err != nil {
			mbt.Die("load streaming genesis: %v", err)
		}
		ref, ok := ldoc.AppState.(*gnoland.GenesisStateRef)
		if !ok {
			mbt.Die("streaming loader returned %T", ldoc.AppState)
		}
		appState = ref
	}
	app, err := gnoland.NewAppWithOptions(&gnoland.AppOptions{
		DB: memdb.NewMemDB(), Logger: log.NewNoopLogger(), EventSwitch: events.NewEventSwitch(),
		InitChainerConfig: gnoland.InitChainerConfig{
			GenesisTxResultHandler: gnoland.NoopGenesisTxResultHandler,
			StdlibDir:              filepath.Join(gnoenv.RootDir(), "gnovm", "stdlibs"),
			CacheStdlibLoad:        true,
		},
		SkipGenesisSigVerification: true,
		PruneStrategy:              types.PruneNothingStrategy,
	})
	if err != nil {
		mbt.Die("app: %v", err)
	}
	bapp := app.(*sdk.BaseApp)
	resp := bapp.InitChain(abci.RequestInitChain{
		Time: time.Unix(1_700_000_000, 0).UTC(), ChainID: chainID,
		ConsensusParams: &abci.ConsensusParams{Block: &abci.BlockParams{MaxTxBytes: 1_000_000, MaxDataBytes: 2_000_000, MaxGas: 3_000_000_000, TimeIotaMS: 100}},
		Validators:      []abci.ValidatorUpdate{},
		AppState:        appState,
		InitialHeight:   initialHeight,
	})
	out, err := os.Create(f.Out)
	if err != nil {
		mbt.Die("%v", err)
	}
	w := bufio.NewWriter(out)
	emit := func(x any) {
		bz, _ := json.Marshal(x)
		w.Write(bz)
		w.WriteByte('\n')
	}
	var txs []map[string]any
	okc, failc := 0, 0
	for _, r := range resp.TxResponses {
		if r.IsOK() {
			okc++
		} else {
			failc++
		}
		txs = append(txs, map[string]any{"ok": r.IsOK(), "cls": appenv.ErrClass(r.Error),
			"result": hex.EncodeToString(bft.NewResultFromResponse(r).Bytes()), "used": r.GasUsed, "wanted": r.GasWanted})
	}
	if txs == nil {
		txs = []map[string]any{}
	}
	valbz, _ := amino.MarshalJSON(resp.Validators)
	initOK := resp.IsOK()
	c := bapp.Commit()
	q := func(path string, data string) string {
		r := bapp.Query(abci.RequestQuery{Path: path, Data: []byte(data)})
		if !r.IsOK() {
			return "ERR:" + appenv.ErrClass(r.Error)
		}
		return string(r.Data)
	}
	snap := q("vm/qeval", "gno.land/r/verif/gcounter.Get()") + "|" + q("vm/qrender", "gno.land/r/verif/gcounter:") + "|" +
		q("bank/balances/"+appenv.NewAccount("g1").Addr.String(), "") + "|" + q("bank/balances/"+appenv.NewAccount("gdeployer").Addr.String(), "") +
		"|" + string(valbz) + fmt.Sprintf("|initok=%v", initOK)
	emit(map[string]any{"h": 0, "apphash": hex.EncodeToString(c.Data), "txs": txs, "snap": snap})
	// one probing block on top of the genesis state
	h := bapp.LastBlockHeight() + 1
	bapp.BeginBlock(abci.RequestBeginBlock{Header: &bft.Header{ChainID: chainID, Height: h, Time: time.Unix(1_700_000_100, 0).UTC()}})
	dep := appenv.NewAccount("gdeployer")
	accq := bapp.Query(abci.RequestQuery{Path: "auth/accounts/" + dep.Addr.String()})
	var wacc struct {
		BaseAccount struct {
			AccNum string `json:"account_number"`
			Seq    string `json:"sequence"`
		} `json:"BaseAccount"`
	}
	json.Unmarshal(accq.Data, &wacc)
	var an, sq uint64
	fmt.Sscan(wacc.BaseAccount.AccNum, &an)
	fmt.Sscan(wacc.BaseAccount.Seq, &sq)
	tx := appenv.SignTx([]std.Msg{vm.NewMsgCall(dep.Addr, nil, "gno.land/r/verif/gcounter", "Add", []string{"7"})}, 50_000_000, 100_000, chainID, dep, an, sq)
	r := bapp.DeliverTx(abci.RequestDeliverTx{Tx: amino.MustMarshal(tx)})
	bapp.EndBlock(abci.RequestEndBlock{Height: h})
	c2 := bapp.Commit()
	emit(map[string]any{"h": h, "apphash": hex.EncodeToString(c2.Data),
		"txs":  []map[string]any{{"ok": r.IsOK(), "cls": appenv.ErrClass(r.Error), "result": hex.EncodeToString(bft.NewResultFromResponse(r).Bytes()), "used": r.GasUsed, "wanted": r.GasWanted}},
		"snap": q("vm/qeval", "gno.land/r/verif/gcounter.Get()")})
	w.Flush()
	out.Close()
	desc["kind"] = "summary"
	desc["mode"] = mode
	desc["tx_ok"] = okc
	desc["tx_fail"] = failc
	desc["initial_height"] = initialHeight
	desc["first_height"] = h
	mbt.Emit(desc)
	mbt.Flush()
	_ = crypto.Address{}
}
