// Driver for C41 (spec/BlockStore.tla): replays TLC behaviours on the real store.BlockStore and on
// the real state store (state.SaveState / LoadValidators / LoadConsensusParams / LoadState) over
// memdb. The chain of State values is synthesised the way execution.go/updateState does it, on real
// ValidatorSet / ConsensusParams objects, starting from state.MakeGenesisState with InitialHeight
// = H0, so that heights around the 100000 checkpoint are reached without running 10^5 blocks.
package main

import (
	"bytes"
	"fmt"
	"runtime"
	"strings"
	"sync"
	"sync/atomic"
	"time"

	"github.com/gnolang/gno/tm2/pkg/amino"
	abci "github.com/gnolang/gno/tm2/pkg/bft/abci/types"
	sm "github.com/gnolang/gno/tm2/pkg/bft/state"
	"github.com/gnolang/gno/tm2/pkg/bft/store"
	"github.com/gnolang/gno/tm2/pkg/bft/types"
	"github.com/gnolang/gno/tm2/pkg/crypto/ed25519"
	"github.com/gnolang/gno/tm2/pkg/db/memdb"

	"verifharness/mbt"
)

const chainID = "verif-chain"

var keys []ed25519.PrivKeyEd25519

func init() {
	for i := 0; i < 12; i++ {
		keys = append(keys, ed25519.GenPrivKeyFromSecret([]byte(fmt.Sprintf("verif-c41-%d", i))))
	}
}

type savedBlock struct {
	block *types.Block
	parts *types.PartSet
	seen  *types.Commit
	// amino bytes, computed once
	blockBz, headerBz, lastCommitBz, seenBz []byte
	partBz                                  [][]byte
}

type env struct {
	h0 int64
	// state store
	sdb    *memdb.MemDB
	state  sm.State
	saved  bool
	vtable map[[2]int]*types.ValidatorSet // label (ver, age) -> the real set in effect
	ptable map[int]abci.ConsensusParams
	vver   int
	pver   int
	nlabel [2]int // label of state.NextValidators
	vlabel [2]int // label of state.Validators
	// block store
	bdb    *memdb.MemDB
	bs     *store.BlockStore
	blocks map[[2]int]*savedBlock // (height, variant)
}

func newEnv(h0 int64) *env {
	e := &env{h0: h0, sdb: memdb.NewMemDB(), bdb: memdb.NewMemDB(), vtable: map[[2]int]*types.ValidatorSet{},
		ptable: map[int]abci.ConsensusParams{}, blocks: map[[2]int]*savedBlock{}}
	e.bs = store.NewBlockStore(e.bdb)
	return e
}

// ---------------------------------------------------------------- state store

func (e *env) genesis() error {
	gd := &types.GenesisDoc{GenesisTime: time.Unix(1700000000, 0).UTC(), ChainID: chainID, InitialHeight: e.h0,
		ConsensusParams: types.DefaultConsensusParams()}
	for i := 0; i < 3; i++ {
		gd.Validators = append(gd.Validators, types.GenesisValidator{Address: keys[i].PubKey().Address(), PubKey: keys[i].PubKey(),
			Power: int64(3 + 2*i), Name: fmt.Sprintf("v%d", i)})
	}
	st, err := sm.MakeGenesisState(gd)
	if err != nil {
		return err
	}
	e.state, e.saved = st, true
	e.vver, e.pver = 1, 1
	e.vlabel, e.nlabel = [2]int{1, 0}, [2]int{1, 1}
	e.vtable[e.vlabel] = st.Validators.Copy()
	e.vtable[e.nlabel] = st.NextValidators.Copy()
	e.ptable[1] = st.ConsensusParams
	sm.SaveState(e.sdb, st)
	return nil
}

// apply mirrors state/execution.go updateState on the real objects, then SaveState.
func (e *env) apply(cv, cp bool) error {
	s := e.state
	hh := s.LastBlockHeight + 1
	nValSet := s.NextValidators.Copy()
	lhv := s.LastHeightValidatorsChanged
	label := [2]int{e.nlabel[0], e.nlabel[1] + 1}
	if cv {
		e.vver++
		var u abci.ValidatorUpdate
		k := keys[3+e.vver%8]
		switch e.vver % 3 {
		case 0: // change the power of an existing validator
			_, v := nValSet.GetByIndex(0)
			u = abci.ValidatorUpdate{Address: v.Address, PubKey: v.PubKey, Power: v.VotingPower + int64(e.vver)}
		default: // add a validator (or change it if present)
			u = abci.ValidatorUpdate{Address: k.PubKey().Address(), PubKey: k.PubKey(), Power: int64(2 + e.vver)}
		}
		if err := nValSet.UpdateWithABCIValidatorUpdates([]abci.ValidatorUpdate{u}); err != nil {
			return err
		}
		lhv = hh + 1 + 1
		label = [2]int{e.vver, 1}
	}
	nValSet.IncrementProposerPriority(1)
	params := s.ConsensusParams
	lhp := s.LastHeightConsensusParamsChanged
	if cp {
		e.pver++
		bp := *s.ConsensusParams.Block
		bp.MaxGas = 1000000 + int64(e.pver)
		params = s.ConsensusParams.Update(abci.ConsensusParams{Block: &bp})
		lhp = hh + 1
		e.ptable[e.pver] = params
	}
	ns := sm.State{
		SoftwareVersion: s.SoftwareVersion, BlockVersion: s.BlockVersion, AppVersion: s.AppVersion, ChainID: s.ChainID,
		InitialHeight: s.InitialHeight, LastBlockHeight: hh, LastBlockTotalTx: s.LastBlockTotalTx,
		LastBlockID: types.BlockID{Hash: bytes.Repeat([]byte{byte(hh)}, 32)}, LastBlockTime: s.LastBlockTime.Add(time.Second),
		NextValidators: nValSet, Validators: s.NextValidators.Copy(), LastValidators: s.Validators.Copy(),
		LastHeightValidatorsChanged: lhv, ConsensusParams: params, LastHeightConsensusParamsChanged: lhp,
		LastResultsHash: nil, AppHash: []byte{byte(hh)},
	}
	e.vlabel, e.nlabel = e.nlabel, label
	e.vtable[label] = nValSet.Copy()
	e.state = ns
	sm.SaveState(e.sdb, ns)
	return nil
}

func sameSet(a, b *types.ValidatorSet) bool {
	if a == nil || b == nil || len(a.Validators) != len(b.Validators) {
		return false
	}
	for i := range a.Validators {
		x, y := a.Validators[i], b.Validators[i]
		if x.Address != y.Address || !x.PubKey.Equals(y.PubKey) || x.VotingPower != y.VotingPower || x.ProposerPriority != y.ProposerPriority {
			return false
		}
	}
	pa, pb := a.GetProposer(), b.GetProposer()
	return pa != nil && pb != nil && pa.Address == pb.Address
}

// valsAt loads the validator set for h through the real API and names it by its label.
func (e *env) valsAt(h int64) ([2]int, string) {
	var vs *types.ValidatorSet
	var err error
	if p, val, _ := mbt.Guard(func() { vs, err = sm.LoadValidators(e.sdb, h) }); p {
		return [2]int{-1, 0}, fmt.Sprintf("panic: %v", val)
	}
	if err != nil {
		return [2]int{0, 0}, ""
	}
	for l, t := range e.vtable {
		if sameSet(vs, t) {
			return l, ""
		}
	}
	// explain: same membership as some label?
	for l, t := range e.vtable {
		if bytes.Equal(vs.Hash(), t.Hash()) {
			return [2]int{-2, 0}, fmt.Sprintf("membership of label %v but other proposer priorities / proposer: %v", l, vs)
		}
	}
	return [2]int{-2, 0}, "unknown set " + vs.String()
}

func (e *env) parsAt(h int64) (int, string) {
	var p abci.ConsensusParams
	var err error
	if pn, val, _ := mbt.Guard(func() { p, err = sm.LoadConsensusParams(e.sdb, h) }); pn {
		return -1, fmt.Sprintf("panic: %v", val)
	}
	if err != nil {
		return 0, ""
	}
	for l, t := range e.ptable {
		if amino.DeepEqual(p, t) {
			return l, ""
		}
	}
	return -2, fmt.Sprintf("unknown params %+v", p.Block)
}

// ---------------------------------------------------------------- block store

func commitFor(h int64, round int) *types.Commit {
	bid := types.BlockID{Hash: bytes.Repeat([]byte{byte(h), byte(round)}, 16), PartsHeader: types.PartSetHeader{Total: 1, Hash: bytes.Repeat([]byte{7}, 32)}}
	var sigs []*types.CommitSig
	for i := 0; i < 3; i++ {
		v := &types.Vote{Type: types.PrecommitType, Height: h, Round: round, BlockID: bid, Timestamp: time.Unix(1700000000+h, 0).UTC(),
			ValidatorAddress: keys[i].PubKey().Address(), ValidatorIndex: i}
		sig, _ := keys[i].Sign(v.SignBytes(chainID))
		v.Signature = sig
		if i == 2 && round%2 == 0 {
			sigs = append(sigs, nil) // an absent precommit
			continue
		}
		sigs = append(sigs, v.CommitSig())
	}
	return types.NewCommit(bid, sigs)
}

func (e *env) mkBlock(h int64, v int) *savedBlock {
	if b, ok := e.blocks[[2]int{int(h), v}]; ok {
		return b
	}
	var txs []types.Tx
	for i := 0; i < (v-1)*3; i++ {
		txs = append(txs, types.Tx(bytes.Repeat([]byte{byte(i), byte(v), byte(h)}, 40)))
	}
	blk := types.MakeBlock(h, txs, commitFor(h-1, v))
	blk.ChainID = chainID
	blk.Time = time.Unix(1700000000+h, int64(v)).UTC()
	blk.ProposerAddress = keys[v%3].PubKey().Address()
	blk.ValidatorsHash = bytes.Repeat([]byte{1}, 32)
	blk.NextValidatorsHash = bytes.Repeat([]byte{2}, 32)
	blk.AppHash = []byte{byte(v)}
	sb := &savedBlock{block: blk, parts: blk.MakePartSet(256), seen: commitFor(h, v+10)}
	sb.blockBz, sb.headerBz = amino.MustMarshal(blk), amino.MustMarshal(blk.Header)
	sb.lastCommitBz, sb.seenBz = amino.MustMarshal(blk.LastCommit), amino.MustMarshal(sb.seen)
	for i := 0; i < sb.parts.Total(); i++ {
		sb.partBz = append(sb.partBz, amino.MustMarshal(sb.parts.GetPart(i)))
	}
	e.blocks[[2]int{int(h), v}] = sb
	return sb
}

func (e *env) blockAt(h int64, nv int) (blk, cmt, seen int, why string) {
	p, val, _ := mbt.Guard(func() {
		if b := e.bs.LoadBlock(h); b != nil {
			blk = -2
			for v := 1; v <= nv; v++ {
				sb, ok := e.blocks[[2]int{int(h), v}]
				if !ok || !bytes.Equal(amino.MustMarshal(b), sb.blockBz) {
					continue
				}
				blk = v
				meta := e.bs.LoadBlockMeta(h)
				if meta == nil || !bytes.Equal(meta.BlockID.Hash, sb.block.Hash()) || !meta.BlockID.PartsHeader.Equals(sb.parts.Header()) ||
					!bytes.Equal(amino.MustMarshal(meta.Header), sb.headerBz) {
					blk, why = -2, "LoadBlockMeta differs from the saved block"
				}
				for i := 0; i < sb.parts.Total(); i++ {
					pt := e.bs.LoadBlockPart(h, i)
					if pt == nil || !bytes.Equal(amino.MustMarshal(pt), sb.partBz[i]) {
						blk, why = -2, fmt.Sprintf("LoadBlockPart(%d,%d) differs from the saved part", h, i)
					}
				}
				if e.bs.LoadBlockPart(h, sb.parts.Total()) != nil {
					blk, why = -2, "a part beyond the saved part set exists"
				}
			}
		} else if e.bs.LoadBlockMeta(h) != nil {
			blk, why = -2, "meta without block"
		}
		if c := e.bs.LoadBlockCommit(h); c != nil {
			cmt = -2
			for v := 1; v <= nv; v++ {
				if sb, ok := e.blocks[[2]int{int(h + 1), v}]; ok && bytes.Equal(amino.MustMarshal(c), sb.lastCommitBz) {
					cmt = v
				}
			}
		}
		if c := e.bs.LoadSeenCommit(h); c != nil {
			seen = -2
			for v := 1; v <= nv; v++ {
				if sb, ok := e.blocks[[2]int{int(h), v}]; ok && bytes.Equal(amino.MustMarshal(c), sb.seenBz) {
					seen = v
				}
			}
		}
	})
	if p {
		return -1, -1, -1, fmt.Sprintf("panic: %v", val)
	}
	return
}

// ---------------------------------------------------------------- replay

var steps, okc, loads int64

func replay(beh []mbt.Step, h0 int64, nv int, lastOnly bool) bool {
	e := newEnv(h0)
	for k, s := range beh {
		atomic.AddInt64(&steps, 1)
		cs := map[string]any{"h0": h0, "nv": nv, "steps": beh[:k+1]}
		reply := ""
		switch s.Act() {
		case "SaveBlock":
			sb := e.mkBlock(int64(s.Int("h")), s.Int("v"))
			reply = "ok"
			if p, _, _ := mbt.Guard(func() { e.bs.SaveBlock(sb.block, sb.parts, sb.seen) }); p {
				reply = "panic"
			}
			if reply != s.Str("reply") {
				mbt.Mismatch("C41:SaveBlock:"+s.Str("reply"), fmt.Sprintf("step %d %s: SaveBlock %s (spec %s)", k, mbt.JS(s), reply, s.Str("reply")), cs)
				return false
			}
		case "Reopen":
			e.bs = store.NewBlockStore(e.bdb)
			if e.saved {
				ls := sm.LoadState(e.sdb)
				if !ls.Equals(e.state) {
					mbt.Mismatch("C41:LoadState", fmt.Sprintf("step %d: LoadState differs from the last saved state (height %d vs %d)", k, ls.LastBlockHeight, e.state.LastBlockHeight), cs)
					return false
				}
			}
		case "Genesis":
			if err := e.genesis(); err != nil {
				mbt.Die("genesis: %v", err)
			}
		case "Apply":
			if int64(s.Int("h")) != e.state.LastBlockHeight+1 {
				mbt.Die("Apply height %d but state is at %d", s.Int("h"), e.state.LastBlockHeight)
			}
			if p, val, stk := mbt.Guard(func() {
				if err := e.apply(s.Bool("cv"), s.Bool("cp")); err != nil {
					mbt.Die("apply: %v", err)
				}
			}); p {
				mbt.Mismatch("C41:SaveState:panic", fmt.Sprintf("step %d %s: %v at %s", k, mbt.JS(s), val, mbt.ShortStack(stk)), cs)
				return false
			}
		default:
			mbt.Die("unknown act %q", s.Act())
		}
		// ---- projection through the load APIs (edge mode: every edge is the last step of exactly
		// one behaviour, so comparing there covers every transition once)
		if lastOnly && k < len(beh)-1 {
			continue
		}
		exp := s["st"].(map[string]any)
		if int(e.bs.Height()) != mbt.Step(exp).Int("height") {
			mbt.Mismatch("C41:Height", fmt.Sprintf("step %d %s: store height %d (spec %d)", k, mbt.JS(s), e.bs.Height(), mbt.Step(exp).Int("height")), cs)
			return false
		}
		for i, x := range exp["blocks"].([]any) {
			w := mbt.Ints(x)
			b, c, sn, why := e.blockAt(int64(i), nv)
			atomic.AddInt64(&loads, 5)
			if b != w[0] || c != w[1] || sn != w[2] {
				what := "LoadSeenCommit"
				if b != w[0] {
					what = "LoadBlock"
				} else if c != w[1] {
					what = "LoadBlockCommit"
				}
				mbt.Mismatch("C41:"+what, fmt.Sprintf("step %d %s: height %d: block/commit/seen-commit variants loaded = %d/%d/%d (spec %d/%d/%d; 0 = none, -2 = not the saved data) %s",
					k, mbt.JS(s), i, b, c, sn, w[0], w[1], w[2], why), cs)
				return false
			}
		}
		for i, x := range exp["vals"].([]any) {
			w := mbt.Ints(x)
			h := h0 - 2 + int64(i)
			l, why := e.valsAt(h)
			atomic.AddInt64(&loads, 1)
			if l[0] != w[0] || l[1] != w[1] {
				key := "C41:LoadValidators"
				if l[0] == -1 {
					key += ":panic"
				}
				mbt.Mismatch(key, fmt.Sprintf("step %d %s: LoadValidators(%d) = set %v (spec %v; [ver, age], 0 = none, -2 = not a set of this chain) %s", k, mbt.JS(s), h, l, w, why), cs)
				return false
			}
		}
		for i, w := range mbt.Ints(exp["pars"]) {
			h := h0 - 2 + int64(i)
			l, why := e.parsAt(h)
			atomic.AddInt64(&loads, 1)
			if l != w {
				mbt.Mismatch("C41:LoadConsensusParams", fmt.Sprintf("step %d %s: LoadConsensusParams(%d) = version %d (spec %d) %s", k, mbt.JS(s), h, l, w, why), cs)
				return false
			}
		}
	}
	return true
}

func main() {
	f := mbt.ParseFlags()
	var h0 int64
	var nv int
	if _, err := fmt.Sscanf(strings.ReplaceAll(f.Extra, "|", " "), "%d %d", &h0, &nv); err != nil {
		mbt.Die("-x \"H0|NV\": %v", err)
	}
	behs, err := mbt.ReadBehaviours(f.In)
	if err != nil {
		mbt.Die("%v", err)
	}
	var wg sync.WaitGroup
	nw := runtime.NumCPU()
	for w := 0; w < nw; w++ {
		wg.Add(1)
		go func(w int) {
			defer wg.Done()
			for i := w; i < len(behs); i += nw {
				if replay(behs[i], h0, nv, f.Mode == "last") {
					atomic.AddInt64(&okc, 1)
				}
			}
		}(w)
	}
	wg.Wait()
	for i := 0; i < len(behs) && i < 2; i++ {
		mbt.Sample(behs[len(behs)-1-i])
	}
	mbt.Summary(map[string]any{"behaviours": len(behs), "replays": len(behs), "replays_ok": okc, "steps": steps, "loads": loads})
	mbt.Flush()
}
