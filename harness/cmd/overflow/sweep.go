// -mode sweep: boundary-directed replay for C19 (spec/OverflowB.tla).
//
// For every integer type the package is instantiated with (all ten built-in types plus named
// types over them) operand pairs are derived from the boundary the SPEC defines - the places
// where the exact result of an operation crosses MIN or MAX of the type:
//
//	anchors x : 0, +-1..3, 2^k + e for EVERY k <= width (e in -2..2, both signs), isqrt(MAX) + e,
//	            isqrt(2^width) + e, MIN + e, MAX - e, and seeded random values of every bit length;
//	partners y: Add  MAX - x + d, MIN - x + d      Sub  x - MAX + d, x - MIN + d
//	            Mul  MAX/x + d, MIN/x + d, 2^width/x + d (both signs)      (d in -2..2)
//	            Div  0, +-1, +-2, x, -x, x/2, MIN, MAX
//	            each pair in both orders;
//	far       : Mul partners at 1/4, 1/2, 2x, 4x of the boundary partner; Add/Sub partners at the boundary partner +- 2^e;
//	bands     : low end, high end and a random member of every magnitude band of OverflowB.Band, all pairs, all signs;
//	cross     : -n seeded random pairs for every pair of bit lengths (ka, kb) and every sign combination, all four operations.
//
// Every pair is classified with OverflowB.ClassId (sign and magnitude band of both operands, side
// of the exact result, adjacency to the bound) and evaluated with exact integers (math/big):
// required ok = the exact result exists and is representable; required value = that result.
// The real helper and its panicking variant are called on every type (checkOp: same verdict
// observables as the table replay).
//
// The exact-integer evaluator and the classifier are transcriptions of OverflowB.tla's ReqOk / Exact /
// ClassId; they are not trusted: the table replay compares the evaluator with TLC's tables on every
// 8-bit pair, and the file written to -out (one record of EVERY exercised class per width/signedness,
// plus every record on which a real helper disagreed) is validated against OverflowB.Conforms by
// Apalache (checks/c19.py) before a disagreement is reported as a violation.
//
// stdout: {"kind":"classes", w, signed, types, counts:{class: pairs}}, {"kind":"candidate", key, what, case},
// summary.
package main

import (
	"encoding/json"
	"fmt"
	"math/big"
	"math/rand"
	"os"
	"sort"

	"github.com/gnolang/gno/tm2/pkg/overflow"

	"verifharness/mbt"
)

// named types: the constraint is ~int | ~int8 ...; a change keyed on the representation must hold for them too
type (
	nI8  int8
	nI16 int16
	nI32 int32
	nI64 int64
	nI   int
	nU8  uint8
	nU16 uint16
	nU32 uint32
	nU64 uint64
	nU   uint
)

var (
	one  = big.NewInt(1)
	zero = big.NewInt(0)
)

func pow2(e uint) *big.Int { return new(big.Int).Lsh(one, e) }

func bounds(w uint, signed bool) (min, max *big.Int) {
	if signed {
		return new(big.Int).Neg(pow2(w - 1)), new(big.Int).Sub(pow2(w-1), one)
	}
	return big.NewInt(0), new(big.Int).Sub(pow2(w), one)
}

func inRange(z, min, max *big.Int) bool { return z.Cmp(min) >= 0 && z.Cmp(max) <= 0 }

// band: OverflowB.Band - number of thresholds 2^e <= m, e in {0,1,2,W/4,W/2-1,W/2,W/2+1,3W/4,W-2,W-1}
func band(m *big.Int, w uint) int {
	n := 0
	for _, e := range []uint{0, 1, 2, w / 4, w/2 - 1, w / 2, w/2 + 1, 3 * w / 4, w - 2, w - 1} {
		if m.Cmp(pow2(e)) >= 0 {
			n++
		}
	}
	return n
}

// exact: OverflowB.Exact (Div truncates toward zero; undefined for y = 0)
func exact(op int, x, y *big.Int) (r *big.Int, defined bool) {
	switch op {
	case 0:
		return new(big.Int).Add(x, y), true
	case 1:
		return new(big.Int).Sub(x, y), true
	case 2:
		return new(big.Int).Mul(x, y), true
	}
	if y.Sign() == 0 {
		return big.NewInt(0), false
	}
	return new(big.Int).Quo(x, y), true
}

func b2i(b bool) int {
	if b {
		return 1
	}
	return 0
}

// classID: OverflowB.ClassId
func classID(op int, x, y *big.Int, w uint, min, max *big.Int) int {
	r, def := exact(op, x, y)
	side := 0
	switch {
	case !def:
		side = 3
	case r.Cmp(max) > 0:
		side = 1
	case r.Cmp(min) < 0:
		side = 2
	}
	within := func(lo, hi *big.Int) bool { return r.Cmp(lo) >= 0 && r.Cmp(hi) <= 0 }
	near := false
	ax, ay := new(big.Int).Abs(x), new(big.Int).Abs(y)
	switch op {
	case 0, 1:
		two := big.NewInt(2)
		near = within(new(big.Int).Sub(max, two), new(big.Int).Add(max, two)) || within(new(big.Int).Sub(min, two), new(big.Int).Add(min, two))
	case 2:
		if x.Sign() != 0 {
			d := new(big.Int).Lsh(ax, 1)
			// MAX - 2|x| < r <= MAX + 2|x|   or   MIN - 2|x| <= r < MIN + 2|x|
			near = (r.Cmp(new(big.Int).Sub(max, d)) > 0 && r.Cmp(new(big.Int).Add(max, d)) <= 0) ||
				(r.Cmp(new(big.Int).Sub(min, d)) >= 0 && r.Cmp(new(big.Int).Add(min, d)) < 0)
		}
	case 3:
		near = ay.Cmp(one) <= 0
	}
	return (((((op*2+b2i(x.Sign() < 0))*11+band(ax, w))*2+b2i(y.Sign() < 0))*11+band(ay, w))*4+side)*2 + b2i(near)
}

type pair struct {
	op     int
	x, y   *big.Int
	ok     bool
	r      *big.Int
	cls    int
	origin string
}

func randBits(rng *rand.Rand, k uint) *big.Int {
	if k == 0 {
		return big.NewInt(0)
	}
	z := new(big.Int).Rand(rng, pow2(k-1))
	return z.Add(z, pow2(k-1)) // exactly k bits
}

// genPairs builds the operand pairs of one (width, signedness).
func genPairs(w uint, signed bool, rng *rand.Rand, nRand int) []pair {
	min, max := bounds(w, signed)
	seen := map[string]bool{}
	var anchors []*big.Int
	addA := func(z *big.Int) {
		for _, v := range []*big.Int{z, new(big.Int).Neg(z)} {
			if inRange(v, min, max) && !seen["a"+v.String()] {
				seen["a"+v.String()] = true
				anchors = append(anchors, v)
			}
		}
	}
	for e := int64(-3); e <= 3; e++ {
		addA(big.NewInt(e))
	}
	for k := uint(0); k <= w; k++ {
		for e := int64(-2); e <= 2; e++ {
			addA(new(big.Int).Add(pow2(k), big.NewInt(e)))
		}
	}
	for _, base := range []*big.Int{new(big.Int).Sqrt(max), new(big.Int).Sqrt(new(big.Int).Add(max, one)), new(big.Int).Sqrt(pow2(w)), new(big.Int).Sqrt(pow2(w - 1))} {
		for e := int64(-2); e <= 2; e++ {
			addA(new(big.Int).Add(base, big.NewInt(e)))
		}
	}
	for e := int64(0); e <= 2; e++ {
		addA(new(big.Int).Add(min, big.NewInt(e)))
		addA(new(big.Int).Sub(max, big.NewInt(e)))
	}
	for k := uint(1); k <= w; k++ {
		for i := 0; i < nRand; i++ {
			addA(randBits(rng, k))
		}
	}
	var out []pair
	add := func(op int, x, y *big.Int, origin string) {
		if !inRange(x, min, max) || !inRange(y, min, max) {
			return
		}
		key := fmt.Sprintf("%d|%s|%s", op, x, y)
		if seen[key] {
			return
		}
		seen[key] = true
		r, def := exact(op, x, y)
		ok := def && inRange(r, min, max)
		out = append(out, pair{op, x, y, ok, r, classID(op, x, y, w, min, max), origin})
	}
	both := func(op int, x, y *big.Int, origin string) {
		add(op, x, y, origin)
		add(op, y, x, origin)
	}
	ds := []int64{-2, -1, 0, 1, 2}
	pw := pow2(w)
	for _, x := range anchors {
		for _, d := range ds {
			bd := big.NewInt(d)
			// Add: x + y around MAX / MIN
			both(0, x, new(big.Int).Add(new(big.Int).Sub(max, x), bd), "add-at-max")
			both(0, x, new(big.Int).Add(new(big.Int).Sub(min, x), bd), "add-at-min")
			// Sub: x - y around MAX / MIN
			both(1, x, new(big.Int).Add(new(big.Int).Sub(x, max), bd), "sub-at-max")
			both(1, x, new(big.Int).Add(new(big.Int).Sub(x, min), bd), "sub-at-min")
			if x.Sign() != 0 {
				for _, bound := range []*big.Int{max, min, pw, new(big.Int).Neg(pw)} {
					q := new(big.Int).Quo(bound, x)
					y := new(big.Int).Add(q, bd)
					both(2, x, y, "mul-at-bound")
					both(2, x, new(big.Int).Neg(y), "mul-at-bound")
				}
			}
		}
		for _, y := range []*big.Int{zero, one, big.NewInt(-1), big.NewInt(2), big.NewInt(-2), x, new(big.Int).Neg(x), new(big.Int).Quo(x, big.NewInt(2)), min, max} {
			both(3, x, y, "div-special")
		}
		for _, y := range []*big.Int{zero, one, big.NewInt(-1), x, new(big.Int).Neg(x), min, max} {
			both(0, x, y, "special")
			both(1, x, y, "special")
			both(2, x, y, "special")
		}
	}
	// far from the boundary, by every magnitude: Add/Sub partners at the boundary partner +- 2^e (e = the band exponents)
	exps := []uint{2, w / 4, w/2 - 1, w / 2, w/2 + 1, 3 * w / 4, w - 2}
	for _, x := range anchors {
		for _, e := range exps {
			for _, sgn := range []int64{-1, 1} {
				off := new(big.Int).Mul(pow2(e), big.NewInt(sgn))
				both(0, x, new(big.Int).Add(new(big.Int).Sub(max, x), off), "add-far")
				both(0, x, new(big.Int).Add(new(big.Int).Sub(min, x), off), "add-far")
				both(1, x, new(big.Int).Add(new(big.Int).Sub(x, max), off), "sub-far")
				both(1, x, new(big.Int).Add(new(big.Int).Sub(x, min), off), "sub-far")
			}
		}
	}
	// every pair of magnitude bands, deterministically: low end, high end and a random member of each band
	// of OverflowB.Band, every combination of signs, all four operations
	thr := []*big.Int{}
	for _, e := range []uint{0, 1, 2, w / 4, w/2 - 1, w / 2, w/2 + 1, 3 * w / 4, w - 2, w - 1, w} {
		t := pow2(e)
		if len(thr) == 0 || thr[len(thr)-1].Cmp(t) < 0 {
			thr = append(thr, t)
		}
	}
	reps := []*big.Int{big.NewInt(0)}
	for i := 0; i+1 < len(thr); i++ {
		lo, hi := thr[i], new(big.Int).Sub(thr[i+1], one)
		reps = append(reps, lo, hi)
		if span := new(big.Int).Sub(hi, lo); span.Sign() > 0 {
			reps = append(reps, new(big.Int).Add(lo, new(big.Int).Rand(rng, span)))
		}
	}
	var sreps []*big.Int
	for _, m := range reps {
		sreps = append(sreps, m)
		if signed && m.Sign() != 0 {
			sreps = append(sreps, new(big.Int).Neg(m))
		}
	}
	for _, x := range sreps {
		for _, y := range sreps {
			for op := 0; op < 4; op++ {
				add(op, x, y, "band-corners")
			}
		}
	}
	// Mul far from the boundary: for every anchor, partners at half / double / a quarter of the boundary partner
	for _, x := range anchors {
		if x.Sign() == 0 {
			continue
		}
		for _, bound := range []*big.Int{max, min} {
			q := new(big.Int).Quo(bound, x)
			for _, y := range []*big.Int{new(big.Int).Quo(q, big.NewInt(2)), new(big.Int).Lsh(q, 1), new(big.Int).Quo(q, big.NewInt(4)), new(big.Int).Lsh(q, 2)} {
				both(2, x, y, "mul-far")
				both(2, x, new(big.Int).Neg(y), "mul-far")
			}
		}
	}
	// nRand seeded random pairs for every pair of bit lengths and every combination of signs, all four operations
	signs := [][2]bool{{false, false}}
	if signed {
		signs = [][2]bool{{false, false}, {false, true}, {true, false}, {true, true}}
	}
	for ka := uint(0); ka <= w; ka++ {
		for kb := uint(0); kb <= w; kb++ {
			for _, sg := range signs {
				for i := 0; i < nRand; i++ {
					x, y := randBits(rng, ka), randBits(rng, kb)
					if sg[0] {
						x.Neg(x)
					}
					if sg[1] {
						y.Neg(y)
					}
					for op := 0; op < 4; op++ {
						add(op, x, y, "bit-length-cross")
					}
				}
			}
		}
	}
	return out
}

var opBytes = []byte{'+', '-', '*', '/'}

type candidate struct {
	key, what string
	c         map[string]any
	p         *pair
}

var (
	sweepMode  bool
	curPair    *pair
	candidates []candidate
	candCount  = map[string]int{}
	misPairs   = map[*pair]bool{}
	candPairs  = map[*pair]bool{}
)

// sweepReport is called by report() in sweep mode: the disagreement is a CANDIDATE until the
// specification has confirmed the required outcome of that record.
func sweepReport(key, what string, c map[string]any) {
	nMis++
	candCount[key]++
	misPairs[curPair] = true
	if candCount[key] <= 2 {
		c["class"] = curPair.cls
		candPairs[curPair] = true
		candidates = append(candidates, candidate{key, what, c, curPair})
	}
}

func sweepOn[N overflow.Number](tname string, pairs []pair, conv func(*big.Int) N) {
	for i := range pairs {
		p := &pairs[i]
		curPair = p
		var expR N
		if p.ok {
			expR = conv(p.r)
		}
		checkOp(tname, opBytes[p.op], conv(p.x), conv(p.y), p.ok, expR, "sweep:"+p.origin)
	}
}

type recOut struct {
	W      uint   `json:"w"`
	Signed bool   `json:"signed"`
	Op     int    `json:"op"`
	A      string `json:"a"`
	B      string `json:"b"`
	Ok     bool   `json:"ok"`
	R      string `json:"r"`
	Cls    int    `json:"cls"`
	Mis    bool   `json:"mis"`
}

func doSweep(f *mbt.Flags) {
	sweepMode = true
	nRand := f.N
	if nRand <= 0 {
		nRand = 2
	}
	var recs []recOut
	totalPairs := 0
	for _, w := range []uint{8, 16, 32, 64} {
		for _, signed := range []bool{true, false} {
			rng := rand.New(rand.NewSource(f.Seed*1000 + int64(w)*2 + int64(b2i(signed))))
			pairs := genPairs(w, signed, rng, nRand)
			totalPairs += len(pairs)
			var types []string
			run := func(name string, fn func()) { types = append(types, name); fn() }
			switch {
			case signed && w == 8:
				run("int8", func() { sweepOn("int8", pairs, convS[int8]) })
				run("~int8", func() { sweepOn("~int8", pairs, convS[nI8]) })
			case signed && w == 16:
				run("int16", func() { sweepOn("int16", pairs, convS[int16]) })
				run("~int16", func() { sweepOn("~int16", pairs, convS[nI16]) })
			case signed && w == 32:
				run("int32", func() { sweepOn("int32", pairs, convS[int32]) })
				run("~int32", func() { sweepOn("~int32", pairs, convS[nI32]) })
			case signed && w == 64:
				run("int64", func() { sweepOn("int64", pairs, convS[int64]) })
				run("int", func() { sweepOn("int", pairs, convS[int]) })
				run("~int64", func() { sweepOn("~int64", pairs, convS[nI64]) })
				run("~int", func() { sweepOn("~int", pairs, convS[nI]) })
			case !signed && w == 8:
				run("uint8", func() { sweepOn("uint8", pairs, convU[uint8]) })
				run("~uint8", func() { sweepOn("~uint8", pairs, convU[nU8]) })
			case !signed && w == 16:
				run("uint16", func() { sweepOn("uint16", pairs, convU[uint16]) })
				run("~uint16", func() { sweepOn("~uint16", pairs, convU[nU16]) })
			case !signed && w == 32:
				run("uint32", func() { sweepOn("uint32", pairs, convU[uint32]) })
				run("~uint32", func() { sweepOn("~uint32", pairs, convU[nU32]) })
			case !signed && w == 64:
				run("uint64", func() { sweepOn("uint64", pairs, convU[uint64]) })
				run("uint", func() { sweepOn("uint", pairs, convU[uint]) })
				run("~uint64", func() { sweepOn("~uint64", pairs, convU[nU64]) })
				run("~uint", func() { sweepOn("~uint", pairs, convU[nU]) })
			}
			// class histogram + one record of every class + the record of every reported candidate
			counts := map[string]int{}
			first := map[int]bool{}
			for i := range pairs {
				p := &pairs[i]
				counts[fmt.Sprint(p.cls)]++
				mis := misPairs[p]
				if !first[p.cls] || candPairs[p] {
					first[p.cls] = true
					r := "0"
					if p.ok {
						r = p.r.String()
					}
					recs = append(recs, recOut{w, signed, p.op, p.x.String(), p.y.String(), p.ok, r, p.cls, mis})
				}
			}
			mbt.Emit(map[string]any{"kind": "classes", "w": w, "signed": signed, "types": types, "pairs": len(pairs), "counts": counts})
		}
	}
	sort.SliceStable(candidates, func(i, j int) bool { return candidates[i].key < candidates[j].key })
	for _, c := range candidates {
		mbt.Emit(map[string]any{"kind": "candidate", "key": c.key, "what": c.what, "case": c.c})
	}
	if f.Out != "" {
		fo, err := os.Create(f.Out)
		if err != nil {
			mbt.Die("%v", err)
		}
		enc := json.NewEncoder(fo)
		for _, r := range recs {
			if err := enc.Encode(r); err != nil {
				mbt.Die("%v", err)
			}
		}
		fo.Close()
	}
	mbt.Summary(map[string]any{"replays": totalPairs, "sweep_pairs": totalPairs, "evaluations": nEval, "expected_panics_seen": nPanics,
		"mismatches": nMis, "records_for_validation": len(recs)})
	mbt.Flush()
}
