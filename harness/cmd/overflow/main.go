// Driver for C19 (spec/Overflow.tla, MCOverflow.tla, OverflowW.tla): replays the PROPERTY layer
// of the specification on the real generic helpers of tm2/pkg/overflow.
//
//	-mode rows     (default) -in: one behaviour per line = [ {act:"Row", w:8, signed, a, add[], sub[], mul[], div[]} ]
//	               emitted by TLC for every left operand of the 8-bit instance. Every entry is replayed on
//	               int8 / uint8 (all eight functions) and, through exact embeddings, on every wider type:
//	               Add/Sub on (a<<k, b<<k), Mul on (a<<k, b) and (a, b<<k) with k = width-8: the embedded
//	               operation overflows iff the 8-bit one does and its result is the 8-bit result << k.
//	-mode witness  -in: one behaviour per line = [ {act:"Witness", w, signed, cls, a, b, okAdd, rAdd, ...} ]
//	               (numbers as decimal strings) = Apalache models of OverflowW.tla for the wide types.
//	               {act:"WitnessOp", w, signed, op, a, b, ok, r, cls} = one operation of a model of the
//	               class-coverage guard (OverflowB.tla).
//	-mode sweep    boundary-directed replay on every type, see sweep.go.
//	-mode case     -x <json of a reported case>: re-run one reported mismatch.
//
// Verdict observables (C19): the boolean of Add/Sub/Mul/Div, the result when the spec says
// success, and "panics iff the spec says failure" for Addp/Subp/Mulp/Divp.
package main

import (
	"encoding/json"
	"fmt"
	"math/big"
	"sync"

	"github.com/gnolang/gno/tm2/pkg/overflow"

	"verifharness/mbt"
)

var (
	mu       sync.Mutex
	reported = map[string]int{}
	nMis     int64
	nEval    int64
	nPanics  int64
	nOracle  int64
)

func report(key, what string, c map[string]any) {
	if sweepMode {
		sweepReport(key, what, c)
		return
	}
	mu.Lock()
	defer mu.Unlock()
	nMis++
	reported[key]++
	if reported[key] <= 2 {
		mbt.Mismatch(key, what, c)
	}
}

// tryP runs a panicking variant; returns (panicked, value).
func tryP[N overflow.Number](f func() N) (p bool, r N) {
	defer func() {
		if x := recover(); x != nil {
			p = true
		}
	}()
	r = f()
	return
}

var opNames = map[byte]string{'+': "Add", '-': "Sub", '*': "Mul", '/': "Div"}

// checkOp calls the checked helper and its panicking variant on (a, b) and compares with the
// outcome the specification requires (expOk, and expR when expOk).
func checkOp[N overflow.Number](tname string, op byte, a, b N, expOk bool, expR N, origin string) {
	var r, pr N
	var ok, pan bool
	switch op {
	case '+':
		r, ok = overflow.Add(a, b)
		pan, pr = tryP(func() N { return overflow.Addp(a, b) })
	case '-':
		r, ok = overflow.Sub(a, b)
		pan, pr = tryP(func() N { return overflow.Subp(a, b) })
	case '*':
		r, ok = overflow.Mul(a, b)
		pan, pr = tryP(func() N { return overflow.Mulp(a, b) })
	case '/':
		// Div itself must not panic either (Go panics on integer division by zero)
		dp, _ := tryP(func() N { r, ok = overflow.Div(a, b); return r })
		if dp {
			report(fmt.Sprintf("C19:Div:%s:panic", tname), fmt.Sprintf("overflow.Div[%s](%v, %v) panicked", tname, a, b),
				map[string]any{"type": tname, "op": "/", "a": fmt.Sprint(a), "b": fmt.Sprint(b), "expOk": expOk, "exp": fmt.Sprint(expR), "origin": origin})
			return
		}
		pan, pr = tryP(func() N { return overflow.Divp(a, b) })
	}
	nEval += 2
	if pan {
		nPanics++
	}
	bad := ""
	switch {
	case ok != expOk:
		bad = fmt.Sprintf("%s reports ok=%v, the mathematical result is%s representable", opNames[op], ok, map[bool]string{true: "", false: " not"}[expOk])
	case expOk && r != expR:
		bad = fmt.Sprintf("%s returns %v, the mathematical result is %v", opNames[op], r, expR)
	case expOk && pan:
		bad = fmt.Sprintf("%sp panics although the result %v is representable", opNames[op], expR)
	case expOk && pr != expR:
		bad = fmt.Sprintf("%sp returns %v, the mathematical result is %v", opNames[op], pr, expR)
	case !expOk && !pan:
		bad = fmt.Sprintf("%sp returns %v instead of panicking (result not representable)", opNames[op], pr)
	}
	if bad != "" {
		report(fmt.Sprintf("C19:%s:%s", opNames[op], tname),
			fmt.Sprintf("overflow.%s[%s](%v, %v): %s", opNames[op], tname, a, b, bad),
			map[string]any{"type": tname, "op": string(op), "a": fmt.Sprint(a), "b": fmt.Sprint(b), "expOk": expOk, "exp": fmt.Sprint(expR), "origin": origin})
	}
}

// rowOn replays one table row on type N. k = 0: the 8-bit type itself (all four operations);
// k > 0: the embeddings into a wider type.
func rowOn[N overflow.Number](tname string, k uint, a int, min int, ovf int, add, sub, mul, div []int) {
	for i := range add {
		b := min + i
		if k == 0 {
			checkOp(tname, '+', N(a), N(b), add[i] != ovf, N(add[i]), "row")
			checkOp(tname, '-', N(a), N(b), sub[i] != ovf, N(sub[i]), "row")
			checkOp(tname, '*', N(a), N(b), mul[i] != ovf, N(mul[i]), "row")
			checkOp(tname, '/', N(a), N(b), div[i] != ovf, N(div[i]), "row")
			continue
		}
		sa, sb := N(a)<<k, N(b)<<k
		checkOp(tname, '+', sa, sb, add[i] != ovf, N(add[i])<<k, "embed(a<<k,b<<k)")
		checkOp(tname, '-', sa, sb, sub[i] != ovf, N(sub[i])<<k, "embed(a<<k,b<<k)")
		checkOp(tname, '*', sa, N(b), mul[i] != ovf, N(mul[i])<<k, "embed(a<<k,b)")
		checkOp(tname, '*', N(a), sb, mul[i] != ovf, N(mul[i])<<k, "embed(a,b<<k)")
	}
}

func doRow(s mbt.Step) {
	w := s.Int("w")
	if w != 8 {
		mbt.Die("row of width %d: only the 8-bit instance is replayed exhaustively", w)
	}
	signed := s.Bool("signed")
	a := s.Int("a")
	add, sub, mul, div := mbt.Ints(s["add"]), mbt.Ints(s["sub"]), mbt.Ints(s["mul"]), mbt.Ints(s["div"])
	if len(add) != 256 || len(sub) != 256 || len(mul) != 256 || len(div) != 256 {
		mbt.Die("malformed row for a=%d", a)
	}
	ovf := 4 * 256
	// the exact-integer evaluator of the sweep (sweep.go) against TLC's table, on every pair of this row
	{
		w8min, w8max := bounds(8, signed)
		tabs := [4][]int{add, sub, mul, div}
		for op := 0; op < 4; op++ {
			for i, e := range tabs[op] {
				y := big.NewInt(w8min.Int64() + int64(i))
				r, def := exact(op, big.NewInt(int64(a)), y)
				ok := def && inRange(r, w8min, w8max)
				if ok != (e != ovf) || (ok && r.Int64() != int64(e)) {
					mbt.Die("sweep evaluator disagrees with the TLC table: op %d a=%d b=%s table=%d evaluator=(%v,%s)", op, a, y, e, ok, r)
				}
				nOracle++
			}
		}
	}
	if signed {
		rowOn[int8]("int8", 0, a, -128, ovf, add, sub, mul, div)
		rowOn[int16]("int16", 8, a, -128, ovf, add, sub, mul, div)
		rowOn[int32]("int32", 24, a, -128, ovf, add, sub, mul, div)
		rowOn[int64]("int64", 56, a, -128, ovf, add, sub, mul, div)
		rowOn[int]("int", 56, a, -128, ovf, add, sub, mul, div)
	} else {
		rowOn[uint8]("uint8", 0, a, 0, ovf, add, sub, mul, div)
		rowOn[uint16]("uint16", 8, a, 0, ovf, add, sub, mul, div)
		rowOn[uint32]("uint32", 24, a, 0, ovf, add, sub, mul, div)
		rowOn[uint64]("uint64", 56, a, 0, ovf, add, sub, mul, div)
		rowOn[uint]("uint", 56, a, 0, ovf, add, sub, mul, div)
	}
}

func bigOf(s mbt.Step, k string) *big.Int {
	z, ok := new(big.Int).SetString(s.Str(k), 10)
	if !ok {
		mbt.Die("witness field %s=%q is not an integer", k, s.Str(k))
	}
	return z
}

// conv converts a big integer that the spec says is representable into N (exact).
func convS[N ~int | ~int8 | ~int16 | ~int32 | ~int64](z *big.Int) N { return N(z.Int64()) }
func convU[N ~uint | ~uint8 | ~uint16 | ~uint32 | ~uint64](z *big.Int) N {
	return N(z.Uint64())
}

func witnessOn[N overflow.Number](tname string, s mbt.Step, conv func(*big.Int) N) {
	a, b := conv(bigOf(s, "a")), conv(bigOf(s, "b"))
	origin := fmt.Sprintf("witness class %d", s.Int("cls"))
	for _, o := range []struct {
		op     byte
		ok, r  string
	}{{'+', "okAdd", "rAdd"}, {'-', "okSub", "rSub"}, {'*', "okMul", "rMul"}, {'/', "okDiv", "rDiv"}} {
		expOk := s.Bool(o.ok)
		var expR N
		if expOk {
			expR = conv(bigOf(s, o.r))
		}
		checkOp(tname, o.op, a, b, expOk, expR, origin)
	}
}

// witnessOpOn: one operation of one Apalache model (class-coverage guard of OverflowB: a pair of a class the
// sweep did not reach, with the required outcome computed by the solver).
func witnessOpOn[N overflow.Number](tname string, s mbt.Step, conv func(*big.Int) N) {
	a, b := conv(bigOf(s, "a")), conv(bigOf(s, "b"))
	expOk := s.Bool("ok")
	var expR N
	if expOk {
		expR = conv(bigOf(s, "r"))
	}
	checkOp(tname, opBytes[s.Int("op")], a, b, expOk, expR, fmt.Sprintf("guard witness class %d", s.Int("cls")))
}

func doWitnessOp(s mbt.Step) {
	w, signed := s.Int("w"), s.Bool("signed")
	switch {
	case signed && w == 8:
		witnessOpOn("int8", s, convS[int8])
		witnessOpOn("~int8", s, convS[nI8])
	case signed && w == 16:
		witnessOpOn("int16", s, convS[int16])
		witnessOpOn("~int16", s, convS[nI16])
	case signed && w == 32:
		witnessOpOn("int32", s, convS[int32])
		witnessOpOn("~int32", s, convS[nI32])
	case signed && w == 64:
		witnessOpOn("int64", s, convS[int64])
		witnessOpOn("int", s, convS[int])
		witnessOpOn("~int64", s, convS[nI64])
		witnessOpOn("~int", s, convS[nI])
	case !signed && w == 8:
		witnessOpOn("uint8", s, convU[uint8])
		witnessOpOn("~uint8", s, convU[nU8])
	case !signed && w == 16:
		witnessOpOn("uint16", s, convU[uint16])
		witnessOpOn("~uint16", s, convU[nU16])
	case !signed && w == 32:
		witnessOpOn("uint32", s, convU[uint32])
		witnessOpOn("~uint32", s, convU[nU32])
	case !signed && w == 64:
		witnessOpOn("uint64", s, convU[uint64])
		witnessOpOn("uint", s, convU[uint])
		witnessOpOn("~uint64", s, convU[nU64])
		witnessOpOn("~uint", s, convU[nU])
	default:
		mbt.Die("no Go type of width %d", w)
	}
}

func doWitness(s mbt.Step) {
	w, signed := s.Int("w"), s.Bool("signed")
	switch {
	case signed && w == 8:
		witnessOn("int8", s, convS[int8])
	case signed && w == 16:
		witnessOn("int16", s, convS[int16])
	case signed && w == 32:
		witnessOn("int32", s, convS[int32])
	case signed && w == 64:
		witnessOn("int64", s, convS[int64])
		witnessOn("int", s, convS[int])
	case !signed && w == 8:
		witnessOn("uint8", s, convU[uint8])
	case !signed && w == 16:
		witnessOn("uint16", s, convU[uint16])
	case !signed && w == 32:
		witnessOn("uint32", s, convU[uint32])
	case !signed && w == 64:
		witnessOn("uint64", s, convU[uint64])
		witnessOn("uint", s, convU[uint])
	default:
		mbt.Die("no Go type of width %d", w)
	}
}

func caseOn[N overflow.Number](tname string, c map[string]any, conv func(*big.Int) N) {
	get := func(k string) *big.Int {
		z, ok := new(big.Int).SetString(fmt.Sprint(c[k]), 10)
		if !ok {
			mbt.Die("case field %s", k)
		}
		return z
	}
	expOk, _ := c["expOk"].(bool)
	op := fmt.Sprint(c["op"])
	checkOp(tname, op[0], conv(get("a")), conv(get("b")), expOk, conv(get("exp")), "replay")
}

func doCase(x string) {
	var c map[string]any
	if err := json.Unmarshal([]byte(x), &c); err != nil {
		mbt.Die("bad case: %v", err)
	}
	switch fmt.Sprint(c["type"]) {
	case "int8":
		caseOn("int8", c, convS[int8])
	case "int16":
		caseOn("int16", c, convS[int16])
	case "int32":
		caseOn("int32", c, convS[int32])
	case "int64":
		caseOn("int64", c, convS[int64])
	case "int":
		caseOn("int", c, convS[int])
	case "uint8":
		caseOn("uint8", c, convU[uint8])
	case "uint16":
		caseOn("uint16", c, convU[uint16])
	case "uint32":
		caseOn("uint32", c, convU[uint32])
	case "uint64":
		caseOn("uint64", c, convU[uint64])
	case "uint":
		caseOn("uint", c, convU[uint])
	case "~int8":
		caseOn("~int8", c, convS[nI8])
	case "~int16":
		caseOn("~int16", c, convS[nI16])
	case "~int32":
		caseOn("~int32", c, convS[nI32])
	case "~int64":
		caseOn("~int64", c, convS[nI64])
	case "~int":
		caseOn("~int", c, convS[nI])
	case "~uint8":
		caseOn("~uint8", c, convU[nU8])
	case "~uint16":
		caseOn("~uint16", c, convU[nU16])
	case "~uint32":
		caseOn("~uint32", c, convU[nU32])
	case "~uint64":
		caseOn("~uint64", c, convU[nU64])
	case "~uint":
		caseOn("~uint", c, convU[nU])
	default:
		mbt.Die("unknown type in case")
	}
}

func main() {
	f := mbt.ParseFlags()
	if f.Mode == "case" {
		doCase(f.Extra)
		mbt.Summary(map[string]any{"replays": 1, "evaluations": nEval, "mismatches": nMis})
		mbt.Flush()
		return
	}
	if f.Mode == "sweep" {
		doSweep(f)
		return
	}
	behs, err := mbt.ReadBehaviours(f.In)
	if err != nil {
		mbt.Die("%v", err)
	}
	rows, wit := 0, 0
	for _, beh := range behs {
		for _, s := range beh {
			switch s.Act() {
			case "Row":
				doRow(s)
				rows++
			case "WitnessOp":
				doWitnessOp(s)
				wit++
			case "Witness":
				doWitness(s)
				wit++
				if wit <= 3 {
					mbt.Sample(s)
				}
			default:
				mbt.Die("unknown act %q", s.Act())
			}
		}
	}
	mbt.Summary(map[string]any{"replays": rows + wit, "rows": rows, "witnesses": wit, "evaluations": nEval,
		"expected_panics_seen": nPanics, "mismatches": nMis, "evaluator_vs_table": nOracle})
	mbt.Flush()
}
