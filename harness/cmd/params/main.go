// Driver for C13 (spec/Params.tla): replays TLC behaviours on the REAL gno.land application.
// Test realms gno.land/r/verif/{alpha,beta,alpha/sub}, a /p/ helper, a realm at the designated path
// gno.land/r/sys/params and a realm gno.land/r/verif/evil that also imports "sys/params" are
// deployed; every UserSet / SysSet step is a signed MsgCall (or MsgRun) transaction that makes
// the realm call the real chain/params or sys/params setter with the key string of the spec's
// key class. After every transaction the block is committed and EVERY key of the params store
// (main store, prefix /pv/) is dumped and compared with the store the spec predicts.
//
// Verdict observables: accept/reject of every transaction; the complete set of params keys and
// their values after every transaction (a write lands exactly at vm:<realm>:<key>, nothing else
// changes; module parameters change only through gno.land/r/sys/params with valid values).
// The value of the per-realm accounting key _realmmeta_<path> is not compared (its presence is).
package main

import (
	"bytes"
	"fmt"
	"os"
	"reflect"
	"sort"
	"strings"
	"unsafe"

	"github.com/gnolang/gno/gno.land/pkg/sdk/vm"
	"github.com/gnolang/gno/tm2/pkg/amino"
	"github.com/gnolang/gno/tm2/pkg/crypto"
	"github.com/gnolang/gno/tm2/pkg/std"
	"github.com/gnolang/gno/tm2/pkg/store"

	"verifharness/appenv"
	"verifharness/mbt"
)

const maxPerKey = 2 // mismatches reported per failure class and driver process

const maxReported = 4 // mismatches re-run and reported per driver process (the rest is counted)

var realmPath = map[string]string{
	"a":    "gno.land/r/verif/alpha",
	"b":    "gno.land/r/verif/beta",
	"asub": "gno.land/r/verif/alpha/sub",
}

const doSrc = `
func do(kind, key, val string) {
	switch kind {
	case "String":
		params.SetString(key, val)
	case "Bool":
		params.SetBool(key, val == "v1")
	case "Int64":
		n := int64(-5)
		if val == "v2" {
			n = 9223372036854775807
		}
		params.SetInt64(key, n)
	case "Uint64":
		n := uint64(7)
		if val == "v2" {
			n = 18446744073709551615
		}
		params.SetUint64(key, n)
	case "Bytes":
		params.SetBytes(key, []byte(val))
	case "BytesNil":
		params.SetBytes(key, nil)
	case "Strings":
		params.SetStrings(key, []string{val})
	case "AddStrings":
		params.UpdateParamStrings(key, []string{val}, true)
	case "DelStrings":
		params.UpdateParamStrings(key, []string{val}, false)
	default:
		panic("unknown kind " + kind)
	}
}
`

func helperSrc() string {
	return "package helper\n\nimport \"chain/params\"\n\n// Do calls the chain/params setter on behalf of whoever calls it.\nfunc Do(kind, key, val string) { do(kind, key, val) }\n" + doSrc
}

func realmSrc(name string, withRelay bool) string {
	s := "package " + name + "\n\nimport (\n\t\"chain/params\"\n\n\thelper \"gno.land/p/verif/helper\"\n"
	if withRelay {
		s += "\tb \"gno.land/r/verif/beta\"\n"
	}
	s += ")\n\nfunc Set(cur realm, kind, key, val string) { do(kind, key, val) }\n\nfunc ViaHelper(cur realm, kind, key, val string) { helper.Do(kind, key, val) }\n"
	if withRelay {
		s += "\nfunc Relay(cur realm, kind, key, val string) { b.Set(cross(cur), kind, key, val) }\n"
	}
	return s + doSrc
}

// sysBody calls the sys/params entry point selected by typ (every exported setter is reachable).
const sysBody = `
func setSys(typ, module, sub, name, val string) {
	switch typ {
	case "string":
		sp.SetSysParamString(module, sub, name, val)
	case "int64":
		n := int64(0)
		neg := false
		for i, c := range val {
			if i == 0 && c == '-' {
				neg = true
				continue
			}
			n = n*10 + int64(c-'0')
		}
		if neg {
			n = -n
		}
		sp.SetSysParamInt64(module, sub, name, n)
	case "uint64":
		sp.SetSysParamUint64(module, sub, name, uint64(len(val)))
	case "bytes":
		sp.SetSysParamBytes(module, sub, name, []byte(val))
	case "strings":
		sp.SetSysParamStrings(module, sub, name, []string{val})
	case "strings0":
		sp.SetSysParamStrings(module, sub, name, []string{})
	case "add":
		sp.UpdateSysParamStrings(module, sub, name, []string{val}, true)
	case "del":
		sp.UpdateSysParamStrings(module, sub, name, []string{val}, false)
	case "bool":
		sp.SetSysParamBool(module, sub, name, val == "true")
	default:
		panic("unknown type " + typ)
	}
}
`

// sysSrc: a realm exposing SetSys (used at gno.land/r/sys/params and at gno.land/r/verif/evil).
func sysSrc(name string) string {
	return "package " + name + "\n\nimport sp \"sys/params\"\n\nfunc SetSys(cur realm, typ, module, sub, name, val string) { setSys(typ, module, sub, name, val) }\n" + sysBody
}

// sysHelperSrc: a /p/ package importing sys/params; sysViaHelperSrc: a realm that calls it.
func sysHelperSrc() string {
	return "package syshelper\n\nimport sp \"sys/params\"\n\nfunc SetSys(typ, module, sub, name, val string) { setSys(typ, module, sub, name, val) }\n" + sysBody
}

func sysViaHelperSrc() string {
	return "package evilh\n\nimport \"gno.land/p/verif/syshelper\"\n\nfunc SetSys(cur realm, typ, module, sub, name, val string) { syshelper.SetSys(typ, module, sub, name, val) }\n"
}

func sysRunSrc(args []string) string {
	return fmt.Sprintf("package main\n\nimport sp \"sys/params\"\n\nfunc main() { setSys(%q, %q, %q, %q, %q) }\n%s", args[0], args[1], args[2], args[3], args[4], sysBody)
}

// ---------------------------------------------------------------- key classes and module keys

func keyString(class, u string) string {
	switch class {
	case "plain":
		return "foo_" + u
	case "plain2":
		return "Bar-2." + u
	case "slash":
		return "x/y/" + u
	case "otherrealm":
		return "gno.land/r/verif/beta/" + u
	case "p":
		return "p" + u
	case "unicode":
		return "ключ-鍵-" + u
	case "space":
		return " a b " + u + " "
	case "nul":
		return "a\x00b" + u
	case "dots":
		return "../b/" + u
	case "metaforge":
		return "_realmmeta_gno.land/r/verif/beta" + u
	case "long":
		return strings.Repeat("k", 4000) + u
	case "empty":
		return ""
	case "colon":
		return "a:b" + u
	case "lcolon":
		return ":x" + u
	case "tcolon":
		return "x" + u + ":"
	case "otherrealmcolon":
		return "gno.land/r/verif/beta:foo_" + u
	case "modauth":
		return "auth:p:max_memo_bytes"
	case "modvm":
		return "vm:p:chain_domain"
	case "modbank":
		return "bank:p:restricted_denoms"
	case "modnode":
		return "node:p:halt_height"
	case "metacolon":
		return "x:_realmmeta_" + u
	}
	mbt.Die("unknown key class %q", class)
	return ""
}

type modKey struct {
	module, sub, name, typ string
	vals                   map[string]string // value class -> literal ("wrongtype" uses the other type)
}

var modKeys = map[string]modKey{
	"auth_memo":     {"auth", "p", "max_memo_bytes", "int64", map[string]string{"good1": "70000", "good2": "80000", "bad": "0"}},
	"auth_siglimit": {"auth", "p", "tx_sig_limit", "int64", map[string]string{"good1": "8", "good2": "9", "bad": "-1"}},
	"vm_deposit":    {"vm", "p", "default_deposit", "string", map[string]string{"good1": "700000000ugnot", "good2": "800000000ugnot", "bad": "notcoins"}},
	"vm_price":      {"vm", "p", "storage_price", "string", map[string]string{"good1": "200ugnot", "good2": "300ugnot", "bad": "-"}},
	"bank_denoms":   {"bank", "p", "restricted_denoms", "strings", map[string]string{"good1": "atom", "good2": "btc", "bad": "!!"}},
	"node_minver":   {"node", "p", "halt_min_version", "string", map[string]string{"good1": "v1.0.0", "good2": "v2.0.0"}},
	"auth_unknown":  {"auth", "p", "nonexistent", "string", nil},
	"vm_unknown":    {"vm", "p", "nonexistent", "string", nil},
	"bank_unknown":  {"bank", "p", "nonexistent", "string", nil},
	"node_unknown":  {"node", "p", "nonexistent", "string", nil},
	"node_valcur":   {"node", "valset", "current", "strings", nil},
	"nomodule":      {"nomod", "p", "x", "string", nil},
	"emptysub":      {"vm", "", "x", "string", nil},
	"colonname":     {"vm", "p", "a:b", "string", nil},
}

// sysArgs returns (typ, literal) for SetSys of value class v on module key mk.
func sysArgs(mk modKey, v string) (string, string) {
	if lit, ok := mk.vals[v]; ok {
		return mk.typ, lit
	}
	if v == "wrongtype" || v == "bad" {
		// a value of another type (for keys without a dedicated invalid value too)
		if mk.typ == "int64" {
			return "string", "x"
		}
		return "int64", "5"
	}
	return mk.typ, "x" // keys that are rejected whatever the value
}

func aminoJSON(v any) []byte { return amino.MustMarshalJSON(v) }

// storedUser is the byte value chain/params must have stored for an abstract value record.
func storedUser(rec map[string]any) []byte {
	c := rec["c"]
	switch rec["t"] {
	case "String":
		return aminoJSON(c.(string))
	case "Bool":
		return aminoJSON(c.(string) == "v1")
	case "Int64":
		if c.(string) == "v2" {
			return aminoJSON(int64(9223372036854775807))
		}
		return aminoJSON(int64(-5))
	case "Uint64":
		if c.(string) == "v2" {
			return aminoJSON(uint64(18446744073709551615))
		}
		return aminoJSON(uint64(7))
	case "Bytes":
		return []byte(c.(string))
	case "Strings":
		return nil // compared as a set, see sameStrings
	}
	mbt.Die("unknown value type %v", rec["t"])
	return nil
}

func sameStrings(stored []byte, want []string) bool {
	var got []string
	if err := amino.UnmarshalJSON(stored, &got); err != nil {
		return false
	}
	g := append([]string{}, got...)
	w := append([]string{}, want...)
	sort.Strings(g)
	sort.Strings(w)
	return len(g) == len(w) && strings.Join(g, "\x01") == strings.Join(w, "\x01")
}

// ---------------------------------------------------------------- world

type world struct {
	e        *appenv.Env
	user     *appenv.Account
	num, seq uint64
	runPath  string
	broken   string // set when the application panicked outside a transaction (chain halt)
	helperOK bool   // the /p/ helper importing sys/params and the realm calling it could be deployed
	evilOK   bool   // the realm importing sys/params outside the designated path could be deployed
	mainKey  store.StoreKey
}

// dump returns every key/value of the params store (committed state).
func (w *world) dump() map[string][]byte {
	ms := w.e.App.GetCacheMultiStore()
	if w.mainKey == nil {
		// the store key objects are private to the app; read them from the multistore's key table
		rv := reflect.ValueOf(ms)
		cp := reflect.New(rv.Type()).Elem()
		cp.Set(rv)
		f := cp.FieldByName("keys")
		if !f.IsValid() || f.Kind() != reflect.Map {
			mbt.Die("cannot find the multistore key table (field 'keys' of %T)", ms)
		}
		keys := *(*map[string]store.StoreKey)(unsafe.Pointer(f.UnsafeAddr()))
		w.mainKey = keys["main"]
		if w.mainKey == nil {
			mbt.Die("no store named main")
		}
	}
	st := ms.GetStore(w.mainKey)
	prefix := []byte("/pv/")
	end := []byte("/pv0") // '/'+1
	out := map[string][]byte{}
	it := st.Iterator(nil, prefix, end)
	defer it.Close()
	for ; it.Valid(); it.Next() {
		out[string(it.Key()[len(prefix):])] = append([]byte(nil), it.Value()...)
	}
	return out
}

func (w *world) deliver(msg std.Msg) (ok bool, log string) {
	// a panic of the application outside the transaction's own recover (BeginBlock / EndBlock /
	// Commit) means the chain halts: reported as a violation by the caller (w.broken)
	if p, val, st := mbt.Guard(func() {
		w.e.BeginBlock()
		tx := appenv.SignTx([]std.Msg{msg}, 200_000_000, 1_000_000, appenv.ChainID, w.user, w.num, w.seq)
		r := w.e.Deliver(tx)
		if r.GasWanted > 0 {
			w.seq++
		}
		ok, log = r.IsOK(), r.Log
		w.e.EndBlockCommit()
	}); p {
		w.broken = fmt.Sprintf("the application panicked while processing the block: %v at %s", val, mbt.ShortStack(st))
	}
	return ok, log
}

func newWorld() *world {
	w := &world{user: appenv.NewAccount("user")}
	dep := appenv.NewAccount("deployer")
	e, err := appenv.New(appenv.Options{
		MaxGas:   1_000_000_000_000,
		Balances: map[crypto.Address]int64{dep.Addr: 1e15, w.user.Addr: 1e15},
		Deployer: dep,
		Pkgs: []appenv.Pkg{
			{Path: "gno.land/p/verif/helper", Files: map[string]string{"helper.gno": helperSrc()}},
			{Path: "gno.land/r/verif/beta", Files: map[string]string{"b.gno": realmSrc("beta", false)}},
			{Path: "gno.land/r/verif/alpha", Files: map[string]string{"a.gno": realmSrc("alpha", true)}},
			{Path: "gno.land/r/verif/alpha/sub", Files: map[string]string{"sub.gno": realmSrc("sub", false)}},
			{Path: "gno.land/r/sys/params", Files: map[string]string{"params.gno": sysSrc("params")}},
		},
	})
	if err != nil {
		mbt.Die("app: %v", err)
	}
	w.e = e
	ai := e.Account(w.user.Addr)
	w.num, w.seq = ai.Num, ai.Seq
	w.runPath = "gno.land/e/" + w.user.Addr.String() + "/run"
	// the second importer of sys/params: deployed by a normal transaction (it may be refused)
	ok, _ := w.deliver(appenv.AddPkgMsg(w.user.Addr, appenv.Pkg{Path: "gno.land/r/verif/evil", Files: map[string]string{"evil.gno": sysSrc("evil")}}))
	w.evilOK = ok
	ok1, _ := w.deliver(appenv.AddPkgMsg(w.user.Addr, appenv.Pkg{Path: "gno.land/p/verif/syshelper", Files: map[string]string{"h.gno": sysHelperSrc()}}))
	ok2 := false
	if ok1 {
		ok2, _ = w.deliver(appenv.AddPkgMsg(w.user.Addr, appenv.Pkg{Path: "gno.land/r/verif/evilh", Files: map[string]string{"e.gno": sysViaHelperSrc()}}))
	}
	w.helperOK = ok1 && ok2
	return w
}

// ---------------------------------------------------------------- one behaviour

type failure struct{ key, what string }

// sysCall makes `caller` invoke the sys/params entry point selected by args[0].
func (w *world) sysCall(caller string, args []string) (bool, string) {
	switch caller {
	case "sys":
		return w.deliver(vm.NewMsgCall(w.user.Addr, nil, "gno.land/r/sys/params", "SetSys", args))
	case "evil":
		if !w.evilOK {
			return false, "realm importing sys/params outside gno.land/r/sys/params cannot be deployed"
		}
		return w.deliver(vm.NewMsgCall(w.user.Addr, nil, "gno.land/r/verif/evil", "SetSys", args))
	case "helper":
		if !w.helperOK {
			return false, "/p/ package importing sys/params cannot be deployed"
		}
		return w.deliver(vm.NewMsgCall(w.user.Addr, nil, "gno.land/r/verif/evilh", "SetSys", args))
	case "run":
		return w.deliver(vm.NewMsgRun(w.user.Addr, nil, []*std.MemFile{{Name: "main.gno", Body: sysRunSrc(args)}}))
	}
	mbt.Die("unknown caller %q", caller)
	return false, ""
}

func nsPath(w *world, ns string) string {
	if ns == "run" {
		return w.runPath
	}
	return realmPath[ns]
}

func (w *world) submit(s mbt.Step, u string) (bool, string) {
	switch s.Act() {
	case "UserSet":
		key := keyString(s.Str("k"), u)
		args := []string{s.Str("kind"), key, s.Str("v")}
		switch s.Str("via") {
		case "direct":
			return w.deliver(vm.NewMsgCall(w.user.Addr, nil, realmPath[s.Str("ns")], "Set", args))
		case "helper":
			return w.deliver(vm.NewMsgCall(w.user.Addr, nil, realmPath[s.Str("ns")], "ViaHelper", args))
		case "cross":
			return w.deliver(vm.NewMsgCall(w.user.Addr, nil, realmPath["a"], "Relay", args))
		case "run":
			body := fmt.Sprintf("package main\n\nimport \"chain/params\"\n\nfunc main() { do(%q, %q, %q) }\n%s", args[0], args[1], args[2], doSrc)
			return w.deliver(vm.NewMsgRun(w.user.Addr, nil, []*std.MemFile{{Name: "main.gno", Body: body}}))
		}
	case "SysSet":
		mk := modKeys[s.Str("mk")]
		typ, lit := sysArgs(mk, s.Str("v"))
		return w.sysCall(s.Str("caller"), []string{typ, mk.module, mk.sub, mk.name, lit})
	case "SysUpd":
		mk := modKeys["bank_denoms"]
		return w.sysCall(s.Str("caller"), []string{s.Str("op"), mk.module, mk.sub, mk.name, mk.vals[s.Str("d")]})
	case "SysProbe":
		// a key the node module accepts without validation if the call gets through
		return w.sysCall(s.Str("caller"), []string{strings.ToLower(s.Str("fn")), "node", "verifprobe", "k", "true"})
	}
	mbt.Die("unknown step %s", mbt.JS(s))
	return false, ""
}

// expected builds the store the spec predicts: the store at the start of the behaviour (d0)
// overlaid with the behaviour's own user keys, module values and accounting keys.
func (w *world) compare(s mbt.Step, u string, d0, got map[string][]byte, touchesDenoms bool) *failure {
	st := s["st"].(map[string]any)
	type want struct {
		val     []byte
		strs    []string
		isStrs  bool
		anyVal  bool
		present bool
	}
	exp := map[string]want{}
	for k, v := range d0 {
		exp[k] = want{val: v, present: true}
	}
	ents, _ := st["user"].([]any) // the keys that exist; every other candidate key must be absent
	for _, x := range ents {
		ent := x.(map[string]any)
		rec := ent["val"].(map[string]any)
		k := "vm:" + nsPath(w, ent["ns"].(string)) + ":" + keyString(ent["k"].(string), u)
		if rec["t"] == "Strings" {
			exp[k] = want{strs: mbt.Strs(rec["c"]), isStrs: true, present: true}
		} else {
			exp[k] = want{val: storedUser(rec), present: true}
		}
	}
	for id, v := range st["mod"].(map[string]any) {
		if v == "default" {
			continue
		}
		mk := modKeys[id]
		k := mk.module + ":" + mk.sub + ":" + mk.name
		lit := mk.vals[v.(string)]
		switch mk.typ {
		case "int64":
			var n int64
			fmt.Sscan(lit, &n)
			exp[k] = want{val: aminoJSON(n), present: true}
		case "string":
			exp[k] = want{val: aminoJSON(lit), present: true}
		case "strings":
			exp[k] = want{strs: []string{lit}, isStrs: true, present: true}
		}
	}
	if touchesDenoms {
		var lits []string
		for _, d := range mbt.Strs(st["denoms"]) {
			lits = append(lits, modKeys["bank_denoms"].vals[d])
		}
		exp["bank:p:restricted_denoms"] = want{strs: lits, isStrs: true, present: true}
	}
	for _, ns := range mbt.Strs(st["meta"]) {
		exp["_realmmeta_"+nsPath(w, ns)] = want{anyVal: true, present: true}
	}
	keyOf := func(k string) string {
		if len(k) > 120 {
			return k[:60] + "…" + k[len(k)-40:]
		}
		return k
	}
	lastNS := ""
	if s.Act() == "UserSet" {
		lastNS = nsPath(w, s.Str("ns"))
	}
	for k, g := range got {
		e, ok := exp[k]
		if !ok {
			key := "C13:unexpected-key"
			if lastNS != "" && !strings.HasPrefix(k, "vm:"+lastNS+":") && k != "_realmmeta_"+lastNS {
				key = "C13:write-outside-own-namespace"
			} else if s.Str("reply") == "reject" {
				key = "C13:rejected-call-wrote"
			}
			return &failure{key, fmt.Sprintf("after %s the params store holds key %q = %q which the spec does not predict", brief(s), keyOf(k), clip(g))}
		}
		if strings.HasPrefix(k, "_realmmeta_") {
			continue // accounting value: presence only
		}
		if e.anyVal {
			continue
		}
		if e.isStrs {
			if !sameStrings(g, e.strs) {
				return &failure{"C13:value", fmt.Sprintf("after %s key %q holds %q, spec predicts the list %v", brief(s), keyOf(k), clip(g), e.strs)}
			}
			continue
		}
		if !bytes.Equal(g, e.val) {
			key := "C13:value"
			if _, base := d0[k]; base && !strings.HasPrefix(k, "vm:gno.land/") {
				key = "C13:module-param-changed"
			}
			return &failure{key, fmt.Sprintf("after %s key %q holds %q, spec predicts %q", brief(s), keyOf(k), clip(g), clip(e.val))}
		}
	}
	for k := range exp {
		if _, ok := got[k]; !ok {
			return &failure{"C13:missing-key", fmt.Sprintf("after %s key %q is missing from the params store", brief(s), keyOf(k))}
		}
	}
	return nil
}

func clip(b []byte) string {
	if len(b) > 80 {
		return string(b[:80]) + "…"
	}
	return string(b)
}

func brief(s mbt.Step) string {
	if s.Act() == "SysUpd" {
		return fmt.Sprintf("SysUpd(%s,%s,%s)", s.Str("caller"), s.Str("op"), s.Str("d"))
	}
	if s.Act() == "SysProbe" {
		return fmt.Sprintf("SysProbe(%s,%s)", s.Str("caller"), s.Str("fn"))
	}
	if s.Act() == "SysSet" {
		return fmt.Sprintf("SysSet(%s,%s,%s)", s.Str("caller"), s.Str("mk"), s.Str("v"))
	}
	return fmt.Sprintf("UserSet(%s,%s,%s,%s,%s)", s.Str("via"), s.Str("ns"), s.Str("kind"), s.Str("k"), s.Str("v"))
}

var uniq int

// replay runs one behaviour; returns the first failure.
func (w *world) replay(beh []mbt.Step) (int, *failure) {
	uniq++
	u := fmt.Sprintf("u%d", uniq)
	// behaviours that edit bank:p:restricted_denoms start from the empty list (as the spec does)
	touches := false
	for _, s := range beh {
		if s.Act() == "SysUpd" || (s.Act() == "SysSet" && s.Str("mk") == "bank_denoms") {
			touches = true
		}
	}
	if touches {
		if ok, log := w.sysCall("sys", []string{"strings0", "bank", "p", "restricted_denoms", ""}); !ok {
			mbt.Die("cannot reset bank:p:restricted_denoms through gno.land/r/sys/params: %s", log)
		}
	}
	d0 := w.dump()
	for k, s := range beh {
		ok, log := w.submit(s, u)
		txs++
		if w.broken != "" {
			return k, &failure{"C13:chain-halt-after-param-write", fmt.Sprintf("step %d %s (transaction ok=%v): %s", k, brief(s), ok, w.broken)}
		}
		if ok != (s.Str("reply") == "ok") {
			verdict := map[bool]string{true: "accepted", false: "rejected"}
			if i := strings.Index(log, "Data:"); i >= 0 {
				log = log[i:]
			}
			if len(log) > 200 {
				log = log[:200]
			}
			return k, &failure{fmt.Sprintf("C13:%s:%s-but-spec-%s", s.Act(), verdict[ok], s.Str("reply")),
				fmt.Sprintf("step %d %s: transaction %s, spec says %s (%s)", k, brief(s), verdict[ok], s.Str("reply"), strings.ReplaceAll(log, "\n", " "))}
		}
		got := w.dump()
		keysSeen += len(got)
		if fl := w.compare(s, u, d0, got, touches); fl != nil {
			fl.what = fmt.Sprintf("step %d: %s", k, fl.what)
			return k, fl
		}
	}
	return 0, nil
}

var txs, keysSeen int

func main() {
	f := mbt.ParseFlags()
	behs, err := mbt.ReadBehaviours(f.In)
	if err != nil {
		mbt.Die("%v", err)
	}
	w := newWorld()
	failed, unreported, steps := 0, 0, 0
	perKey := map[string]int{}
	for _, b := range behs {
		steps += len(b)
		k, fl := w.replay(b)
		if fl == nil {
			continue
		}
		if w.broken != "" { // the application object is unusable from here on
			failed++
			mbt.Mismatch(fl.key, fl.what, map[string]any{"steps": b[:k+1]})
			break
		}
		if failed >= maxReported || perKey[fl.key] >= maxPerKey {
			unreported++
			continue
		}
		perKey[fl.key]++
		// once more, fresh keys
		if _, fl2 := w.replay(b); fl2 == nil {
			mbt.Die("FLAKY: %s: %s did not reproduce", fl.key, fl.what)
		}
		failed++
		mbt.Mismatch(fl.key, fl.what, map[string]any{"steps": b[:k+1]})
	}
	if len(behs) > 0 {
		mbt.Sample(behs[len(behs)/2])
	}
	if os.Getenv("PARAMS_DEBUG") != "" {
		d := w.dump()
		var ks []string
		for k := range d {
			ks = append(ks, k)
		}
		sort.Strings(ks)
		for _, k := range ks {
			fmt.Fprintf(os.Stderr, "%q = %q\n", k, clip(d[k]))
		}
	}
	mbt.Summary(map[string]any{"behaviours": len(behs), "replays": len(behs), "replays_ok": len(behs) - failed - unreported, "steps": steps,
		"txs": txs, "param_keys_compared": keysSeen, "unreported_failures": unreported, "evil_deployable": w.evilOK, "syshelper_deployable": w.helperOK})
	mbt.Flush()
}
