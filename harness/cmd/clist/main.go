// Driver for C49 (spec/CList.tla, spec/CListSeq.tla, spec/CListTrace.tla): un-gated stress of the
// real tm2/pkg/clist. Every call is logged as a Call event before it is made and a Ret event after
// it returned (global atomic sequence numbers => a total order consistent with real time); TLC
// (CListTrace.tla) searches a linearisation of each run against the sequential list spec.
//
// Each invocation writes -out (NDJSON): first deterministic single-goroutine scenarios, then -n
// concurrent runs (pushers, removers, NextWait / NextWaitChan / non-blocking traversers).
// After pushers and removers are done a sentinel element is pushed: from then on every element a
// traverser can stand on has a successor or is removed, so a traverser still parked in
// NextWait / FrontWait / <-NextWaitChan() is a lost wake-up (confirmed from the goroutine dump:
// parked in sync.WaitGroup.Wait / chan receive inside clist, nobody left to wake it).
package main

import (
	"bufio"
	"encoding/json"
	"fmt"
	"math/rand"
	"os"
	"runtime"
	"sort"
	"strings"
	"sync"
	"sync/atomic"
	"time"

	"github.com/gnolang/gno/tm2/pkg/clist"

	"verifharness/mbt"
)

const sentinel = 1000

type event struct {
	Seq int64  `json:"-"`
	Act string `json:"act"`
	Run int    `json:"run,omitempty"`
	ID  int    `json:"id,omitempty"`
	Op  string `json:"op,omitempty"`
	V   int    `json:"v"`
	R   int    `json:"r"`
	G   int    `json:"g,omitempty"`
	// Final line only
	Live []int `json:"live,omitempty"`
}

type run struct {
	l      *clist.CList
	seq    int64
	opid   int64
	bufs   [][]event // one buffer per goroutine
	status []atomic.Value
	failMu sync.Mutex
	fail   string // first panic message
	failOp string
}

func newRun(ng int) *run {
	return &run{l: clist.New(), bufs: make([][]event, ng), status: make([]atomic.Value, ng)}
}

func val(e *clist.CElement) int {
	if e == nil {
		return 0
	}
	return e.Value.(int)
}

// do logs Call, runs fn (which returns the reply), logs Ret. A panic inside clist is recorded.
func (r *run) do(g int, op string, v int, fn func() int) (reply int, ok bool) {
	if r.failed() {
		return 0, false // the list is unusable after a panic (l.mtx may be held for ever)
	}
	id := int(atomic.AddInt64(&r.opid, 1))
	r.status[g].Store(fmt.Sprintf("%s(%d)", op, v))
	r.bufs[g] = append(r.bufs[g], event{Seq: atomic.AddInt64(&r.seq, 1), Act: "Call", ID: id, Op: op, V: v, G: g})
	panicked, pv, st := mbt.Guard(func() { reply = fn() })
	if panicked {
		r.failMu.Lock()
		if r.fail == "" {
			r.fail = fmt.Sprintf("%v", pv)
			r.failOp = fmt.Sprintf("%s(%d) at %s", op, v, mbt.ShortStack(st))
		}
		r.failMu.Unlock()
		return 0, false
	}
	r.bufs[g] = append(r.bufs[g], event{Seq: atomic.AddInt64(&r.seq, 1), Act: "Ret", ID: id, R: reply, G: g})
	r.status[g].Store("")
	return reply, true
}

func (r *run) failed() bool {
	r.failMu.Lock()
	defer r.failMu.Unlock()
	return r.fail != ""
}

func (r *run) events() []event {
	var all []event
	for _, b := range r.bufs {
		all = append(all, b...)
	}
	sort.Slice(all, func(i, j int) bool { return all[i].Seq < all[j].Seq })
	return all
}

// ---------------------------------------------------------------- operations

func (r *run) pushBack(g, v int) *clist.CElement {
	var e *clist.CElement
	r.do(g, "PushBack", v, func() int { e = r.l.PushBack(v); return val(e) })
	return e
}

func (r *run) remove(g int, e *clist.CElement) bool {
	if _, ok := r.do(g, "Remove", val(e), func() int { return r.l.Remove(e).(int) }); !ok {
		return false
	}
	_, ok := r.do(g, "DetachPrev", val(e), func() int { e.DetachPrev(); return 0 })
	return ok
}

func (r *run) front(g int) (*clist.CElement, bool) {
	var e *clist.CElement
	_, ok := r.do(g, "Front", 0, func() int { e = r.l.Front(); return val(e) })
	return e, ok
}

func (r *run) frontWait(g int) (*clist.CElement, bool) {
	var e *clist.CElement
	_, ok := r.do(g, "FrontWait", 0, func() int { e = r.l.FrontWait(); return val(e) })
	return e, ok
}

// the mempool reactor: <-TxsWaitChan(); TxsFront()
func (r *run) waitChanFront(g int) (*clist.CElement, bool) {
	var e *clist.CElement
	_, ok := r.do(g, "WaitChanFront", 0, func() int { <-r.l.WaitChan(); e = r.l.Front(); return val(e) })
	return e, ok
}

func (r *run) next(g int, e *clist.CElement) (*clist.CElement, bool) {
	var n *clist.CElement
	_, ok := r.do(g, "Next", val(e), func() int { n = e.Next(); return val(n) })
	return n, ok
}

func (r *run) nextWait(g int, e *clist.CElement) (*clist.CElement, bool) {
	var n *clist.CElement
	_, ok := r.do(g, "NextWait", val(e), func() int { n = e.NextWait(); return val(n) })
	return n, ok
}

// the mempool reactor: <-next.NextWaitChan(); next = next.Next()
func (r *run) nextChan(g int, e *clist.CElement) (*clist.CElement, bool) {
	var n *clist.CElement
	_, ok := r.do(g, "NextChan", val(e), func() int { <-e.NextWaitChan(); n = e.Next(); return val(n) })
	return n, ok
}

func (r *run) length(g int) bool {
	_, ok := r.do(g, "Len", 0, func() int { return r.l.Len() })
	return ok
}

// ---------------------------------------------------------------- deterministic scenarios

// scripted: fixed single-goroutine scenario covering relink, frozen next of removed elements,
// tail removal followed by a push (wait-group replacement), emptying and refilling the list.
func scripted(cur *atomic.Value) *run {
	r := newRun(1)
	cur.Store(r)
	e1, e2, e3 := r.pushBack(0, 1), r.pushBack(0, 2), r.pushBack(0, 3)
	if r.failed() {
		return r
	}
	r.front(0)
	r.length(0)
	r.nextWait(0, e1)
	r.next(0, e2)
	r.next(0, e3)
	r.remove(0, e2)
	r.nextWait(0, e1) // 3
	r.nextWait(0, e2) // frozen: 3
	r.remove(0, e3)   // tail removed: e1.nextWg replaced
	r.next(0, e1)     // 0
	r.nextWait(0, e2) // still 3 (documented: frozen successor, now removed)
	r.nextWait(0, e3) // removed tail: nil
	r.length(0)
	if r.failed() {
		return r
	}
	e4 := r.pushBack(0, 4) // Done on e1's NEW wait group
	if r.failed() {
		return r
	}
	r.nextWait(0, e1) // 4
	r.nextChan(0, e1)
	r.next(0, e3)
	r.remove(0, e1)
	r.front(0) // 4
	r.remove(0, e4)
	r.front(0) // 0
	r.length(0)
	if r.failed() {
		return r
	}
	e5 := r.pushBack(0, 5) // Done on the list's NEW wait group
	if r.failed() {
		return r
	}
	r.frontWait(0)
	r.waitChanFront(0)
	r.next(0, e4) // frozen 0
	r.nextWait(0, e1)
	r.remove(0, e5)
	r.pushBack(0, sentinel)
	return r
}

// seqRandom: random single-goroutine scenario; blocking calls are only made when they cannot block.
func seqRandom(rng *rand.Rand, cur *atomic.Value) *run {
	r := newRun(1)
	cur.Store(r)
	var all, live []*clist.CElement
	nextV := 1
	for i := 0; i < 30 && !r.failed(); i++ {
		switch k := rng.Intn(10); {
		case k < 3 && nextV <= 7:
			e := r.pushBack(0, nextV)
			nextV++
			if e != nil {
				all, live = append(all, e), append(live, e)
			}
		case k < 5 && len(live) > 0:
			j := rng.Intn(len(live))
			r.remove(0, live[j])
			live = append(live[:j:j], live[j+1:]...)
		case k < 7 && len(all) > 0:
			e := all[rng.Intn(len(all))]
			if e.Next() != nil || e.Removed() {
				if rng.Intn(2) == 0 {
					r.nextWait(0, e)
				} else {
					r.nextChan(0, e)
				}
			} else {
				r.next(0, e)
			}
		case k < 8 && len(all) > 0:
			r.next(0, all[rng.Intn(len(all))])
		case k < 9:
			if len(live) > 0 && rng.Intn(2) == 0 {
				r.frontWait(0)
			} else {
				r.front(0)
			}
		default:
			r.length(0)
		}
	}
	if !r.failed() {
		r.pushBack(0, sentinel)
	}
	return r
}

// ---------------------------------------------------------------- concurrent run

type stuck struct {
	G      int    `json:"g"`
	Status string `json:"status"`
}

func concurrentRun(rng *rand.Rand) (r *run, stuckList []stuck, dump string) {
	np, nr := 1+rng.Intn(2), 1+rng.Intn(2)
	nwait, nchan, nscan := 1+rng.Intn(2), rng.Intn(2), rng.Intn(2)
	m := 3 + rng.Intn(5) // elements
	ng := 1 + np + nr + nwait + nchan + nscan
	r = newRun(ng)
	seeds := make([]int64, ng)
	for i := range seeds {
		seeds[i] = rng.Int63()
	}
	start := make(chan struct{})
	removable := make(chan *clist.CElement, m)
	var vctr int64
	var writers, travs sync.WaitGroup
	g := 1
	for p := 0; p < np; p++ {
		writers.Add(1)
		go func(g int) {
			defer writers.Done()
			lr := rand.New(rand.NewSource(seeds[g]))
			<-start
			for !r.failed() {
				v := int(atomic.AddInt64(&vctr, 1))
				if v > m {
					return
				}
				if e := r.pushBack(g, v); e != nil {
					removable <- e
				}
				if lr.Intn(3) == 0 {
					runtime.Gosched()
				}
			}
		}(g)
		g++
	}
	var pushersDone int32
	for p := 0; p < nr; p++ {
		writers.Add(1)
		go func(g int) {
			defer writers.Done()
			lr := rand.New(rand.NewSource(seeds[g]))
			<-start
			for !r.failed() {
				var e *clist.CElement
				select {
				case e = <-removable:
				default:
					if atomic.LoadInt32(&pushersDone) == 1 {
						select {
						case e = <-removable:
						default:
							return
						}
					} else {
						runtime.Gosched()
						continue
					}
				}
				if lr.Intn(10) < 7 {
					if !r.remove(g, e) {
						return
					}
				}
			}
		}(g)
		g++
	}
	const maxOps = 14
	for t := 0; t < nwait; t++ { // NextWait traverser
		travs.Add(1)
		go func(g int) {
			defer travs.Done()
			<-start
			for ops := 0; ops < maxOps && !r.failed(); {
				e, ok := r.frontWait(g)
				ops++
				for ok && e != nil && val(e) != sentinel && ops < maxOps {
					e, ok = r.nextWait(g, e)
					ops++
				}
				if !ok || (e != nil && val(e) == sentinel) {
					return
				}
			}
		}(g)
		g++
	}
	for t := 0; t < nchan; t++ { // the reactor's pattern
		travs.Add(1)
		go func(g int) {
			defer travs.Done()
			<-start
			for ops := 0; ops < maxOps && !r.failed(); {
				e, ok := r.waitChanFront(g)
				ops++
				for ok && e != nil && val(e) != sentinel && ops < maxOps {
					e, ok = r.nextChan(g, e)
					ops++
				}
				if !ok || (e != nil && val(e) == sentinel) {
					return
				}
			}
		}(g)
		g++
	}
	for t := 0; t < nscan; t++ { // non-blocking reader
		travs.Add(1)
		go func(g int) {
			defer travs.Done()
			lr := rand.New(rand.NewSource(seeds[g]))
			<-start
			var e *clist.CElement
			for ops := 0; ops < maxOps && !r.failed(); ops++ {
				ok := true
				switch {
				case e == nil || lr.Intn(4) == 0:
					e, ok = r.front(g)
				case lr.Intn(5) == 0:
					ok = r.length(g)
				default:
					e, ok = r.next(g, e)
				}
				if !ok {
					return
				}
				if lr.Intn(3) == 0 {
					runtime.Gosched()
				}
			}
		}(g)
		g++
	}
	close(start)
	// pushers are the first np goroutines of `writers`; removers poll `removable` until pushers are done
	go func() {
		for atomic.LoadInt64(&vctr) <= int64(m) && !r.failed() {
			runtime.Gosched()
		}
		atomic.StoreInt32(&pushersDone, 1)
	}()
	wd := make(chan struct{})
	go func() { writers.Wait(); close(wd) }()
	select {
	case <-wd:
	case <-time.After(20 * time.Second):
		if !r.failed() {
			// writers never block in a correct clist (only on l.mtx)
			return r, collectStuck(r, ng), goroutineDump()
		}
		return r, nil, ""
	}
	if r.failed() {
		return r, nil, ""
	}
	// quiescent: release every waiter; from here on no wait condition can be false
	r.pushBack(0, sentinel)
	td := make(chan struct{})
	go func() { travs.Wait(); close(td) }()
	select {
	case <-td:
	case <-time.After(10 * time.Second):
		if !r.failed() {
			return r, collectStuck(r, ng), goroutineDump()
		}
	}
	return r, nil, ""
}

func collectStuck(r *run, ng int) []stuck {
	var out []stuck
	for g := 0; g < ng; g++ {
		if s, _ := r.status[g].Load().(string); s != "" {
			out = append(out, stuck{g, s})
		}
	}
	return out
}

func goroutineDump() string {
	buf := make([]byte, 1<<20)
	n := runtime.Stack(buf, true)
	var keep []string
	for _, blk := range strings.Split(string(buf[:n]), "\n\n") {
		if strings.Contains(blk, "pkg/clist.") || strings.Contains(blk, "main.(*run).") {
			lines := strings.Split(blk, "\n")
			if len(lines) > 7 {
				lines = lines[:7]
			}
			keep = append(keep, strings.Join(lines, " | "))
		}
	}
	return strings.Join(keep, "\n")
}

// parkedInClist: number of goroutines that are still inside a clist call (parked in WaitGroup.Wait /
// chan receive / mutex, or spinning in a wait loop) although the run is quiescent
func parkedInClist(dump string) int {
	n := 0
	for _, l := range strings.Split(dump, "\n") {
		if strings.HasPrefix(l, "goroutine ") {
			n++
		}
	}
	return n
}

// ---------------------------------------------------------------- main

func finalLive(r *run) (live []int, ok bool) {
	p, _, _ := mbt.Guard(func() {
		n := 0
		for e := r.l.Front(); e != nil; e = e.Next() {
			live = append(live, val(e))
			if n++; n > 10000 {
				panic("cycle")
			}
		}
	})
	return live, !p
}

func main() {
	f := mbt.ParseFlags()
	if f.Out == "" {
		mbt.Die("-out required")
	}
	n := f.N
	if n == 0 {
		n = 50
	}
	out, err := os.Create(f.Out)
	if err != nil {
		mbt.Die("%v", err)
	}
	w := bufio.NewWriterSize(out, 1<<20)
	enc := json.NewEncoder(w)
	runIdx := 0
	var nEvents, nOps int
	emit := func(r *run, kind string) []event {
		runIdx++
		evs := r.events()
		enc.Encode(event{Act: "Reset", Run: runIdx, Op: kind})
		for _, e := range evs {
			enc.Encode(e)
			if e.Act == "Call" {
				nOps++
			}
		}
		nEvents += len(evs) + 1
		return evs
	}
	finish := func(sum map[string]any) {
		w.Flush()
		out.Close()
		sum["runs"] = runIdx
		sum["events"] = nEvents
		sum["ops"] = nOps
		mbt.Summary(sum)
		mbt.Flush()
	}
	reportPanic := func(r *run, kind string) {
		evs := emit(r, kind)
		key := "C49:panic"
		switch {
		case strings.Contains(r.fail, "negative WaitGroup counter"):
			key = "C49:panic:negative-waitgroup-counter"
		case strings.Contains(r.fail, "must be called after Remove"):
			key = "C49:panic:detach-before-removed"
		case strings.Contains(r.fail, "Remove(e)"):
			key = "C49:panic:remove-sanity"
		}
		mbt.Mismatch(key, fmt.Sprintf("%s run: clist panicked: %s in %s", kind, r.fail, r.failOp),
			map[string]any{"kind": kind, "seed": f.Seed, "events": evs})
	}
	// 1. deterministic scenarios
	// (single goroutine, but under a watchdog: a call that cannot block in a correct clist may block in a broken one)
	rng := rand.New(rand.NewSource(f.Seed*7919 + 17))
	nseq := 20
	if f.Tier != "quick" {
		nseq = 200
	}
	var seqRuns []*run
	for i := 0; i <= nseq; i++ {
		var cur atomic.Value
		done := make(chan *run, 1)
		go func(i int) {
			if i == 0 {
				done <- scripted(&cur)
			} else {
				done <- seqRandom(rng, &cur)
			}
		}(i)
		select {
		case r := <-done:
			seqRuns = append(seqRuns, r)
		case <-time.After(10 * time.Second):
			r, _ := cur.Load().(*run)
			dump := goroutineDump()
			var st []stuck
			var evs []event
			if r != nil {
				st, evs = collectStuck(r, 1), r.events()
			}
			mbt.Emit(map[string]any{"kind": "suspect", "run": i, "sequential": true, "stuck": st, "parked_in_clist": parkedInClist(dump), "dump": dump, "events": evs})
			finish(map[string]any{"suspects": 1})
			return
		}
	}
	for _, r := range seqRuns {
		if r.failed() {
			reportPanic(r, "sequential")
			finish(map[string]any{"panics": 1})
			return
		}
		emit(r, "sequential")
		live, ok := finalLive(r)
		if !ok {
			mbt.Mismatch("C49:final-list-cycle", "Front/Next chain does not terminate", map[string]any{"kind": "sequential"})
			finish(map[string]any{})
			return
		}
		enc.Encode(event{Act: "Final", Live: append([]int{}, live...)})
		nEvents++
	}
	// 2. concurrent runs
	suspects := 0
	for i := 0; i < n; i++ {
		r, st, dump := concurrentRun(rng)
		if r.failed() {
			reportPanic(r, "concurrent")
			finish(map[string]any{"panics": 1})
			return
		}
		if st != nil {
			// not validated by TLC (incomplete history); reported as a SUSPECT, the check re-runs the seed
			parked := parkedInClist(dump)
			mbt.Emit(map[string]any{"kind": "suspect", "run": runIdx + 1, "stuck": st, "parked_in_clist": parked, "dump": dump,
				"events": r.events()})
			suspects++
			if suspects >= 2 {
				break
			}
			continue
		}
		emit(r, "concurrent")
		live, ok := finalLive(r)
		if !ok {
			mbt.Mismatch("C49:final-list-cycle", "Front/Next chain does not terminate", map[string]any{"kind": "concurrent", "events": r.events()})
			finish(map[string]any{})
			return
		}
		enc.Encode(event{Act: "Final", Live: append([]int{}, live...)})
		nEvents++
	}
	finish(map[string]any{"suspects": suspects})
}
