// Driver for C25, part "simple" of spec/MerkleProof.tla: every case TLC enumerated (a list, the
// honest proof of one item, one mutation class with its parameters, the claimed item, the root)
// is rebuilt on tm2/pkg/crypto/merkle (SimpleProofsFromByteSlices / SimpleProof.Verify, and
// SimpleProofsFromMap with its KVPair leaves, plus the conversion to an ics23 existence proof
// that the multistore uses) and the accept / reject of the real verifier is compared with exp.
package main

import (
	"bytes"
	"encoding/json"
	"fmt"

	ics23 "github.com/cosmos/ics23/go"

	"github.com/gnolang/gno/tm2/pkg/crypto/merkle"
	"github.com/gnolang/gno/tm2/pkg/crypto/tmhash"

	"verifharness/mbt"
)

type config struct {
	Prop string `json:"prop"`
}

func item(x int) []byte { return []byte(fmt.Sprintf("item-%d", x)) }

// leafHash of an item: the root of the one-element list (merkle.leafHash is not exported)
func leafHash(b []byte) []byte { return merkle.SimpleHashFromByteSlices([][]byte{b}) }

func cloneProof(p *merkle.SimpleProof) *merkle.SimpleProof {
	q := &merkle.SimpleProof{Total: p.Total, Index: p.Index, LeafHash: append([]byte(nil), p.LeafHash...)}
	for _, a := range p.Aunts {
		q.Aunts = append(q.Aunts, append([]byte(nil), a...))
	}
	return q
}

// mutate applies the case's class to the honest proof p; leaf(x) = the leaf bytes claiming item x
func mutate(p *merkle.SimpleProof, c mbt.Step, leaf func(x int) []byte) {
	a, b := c.Int("a"), c.Int("b")
	switch c.Str("cls") {
	case "leaf":
		p.LeafHash = leafHash(leaf(a))
	case "index":
		p.Index = a
	case "total":
		p.Total = a
	case "indextotal", "emptyroot":
		p.Index, p.Total = a, b
	case "auntswap":
		p.Aunts[a-1], p.Aunts[b-1] = p.Aunts[b-1], p.Aunts[a-1]
	case "auntset":
		p.Aunts[a-1] = leafHash(item(b))
	case "auntdrop":
		p.Aunts = append(p.Aunts[:a-1:a-1], p.Aunts[a:]...)
	case "auntdup":
		dup := append([][]byte{}, p.Aunts[:a]...)
		p.Aunts = append(dup, p.Aunts[a-1:]...)
	}
}

type result struct {
	key, what string
}

func verdict(err error) string {
	if err == nil {
		return "accepted"
	}
	return "rejected"
}

func classify(prop, mode string, c mbt.Step, root []byte, got, exp bool) string {
	if got && !exp && len(root) == 0 {
		return prop + ":simple:Verify:malformed-proof-accepted-against-empty-root"
	}
	if got {
		return fmt.Sprintf("%s:%s:%s:accepted-but-the-claim-is-not-proven", prop, mode, c.Str("cls"))
	}
	return fmt.Sprintf("%s:%s:%s:rejected-but-the-proof-is-valid", prop, mode, c.Str("cls"))
}

// listCase: SimpleProofsFromByteSlices
func listCase(prop string, c mbt.Step) *result {
	ids := mbt.Ints(c["items"])
	i := c.Int("i")
	other := 0
	for _, x := range ids {
		if x > other {
			other = x
		}
	}
	items := make([][]byte, len(ids))
	for j, x := range ids {
		items[j] = item(x)
	}
	root, proofs := merkle.SimpleProofsFromByteSlices(items)
	if !bytes.Equal(root, merkle.SimpleHashFromByteSlices(items)) || !bytes.Equal(root, merkle.SimpleHashFromByteSlicesIterative(items)) {
		return &result{prop + ":list:root", fmt.Sprintf("the three root computations disagree on %v", ids)}
	}
	p := cloneProof(proofs[i])
	mutate(p, c, item)
	claim := items[i]
	if cls := c.Str("cls"); cls == "item" || cls == "leaf" {
		claim = item(c.Int("a"))
	}
	roots := [][]byte{root}
	switch c.Str("cls") {
	case "rootother":
		alt := append([][]byte{}, items...)
		alt[c.Int("a")-1] = item(99)
		roots = [][]byte{merkle.SimpleHashFromByteSlices(alt)}
	case "rootprefix":
		roots = [][]byte{merkle.SimpleHashFromByteSlices(items[:c.Int("a")])}
		if c.Int("a") == 0 {
			roots = append(roots, []byte{})
		}
	case "emptyroot":
		roots = [][]byte{nil, {}}
	}
	for _, r := range roots {
		var err error
		if pan, val, _ := mbt.Guard(func() { err = p.Verify(r, claim) }); pan {
			return &result{prop + ":list:" + c.Str("cls") + ":panic", fmt.Sprintf("SimpleProof.Verify panicked on case %s: %v", mbt.JS(c), val)}
		}
		if got := err == nil; got != c.Bool("exp") {
			return &result{classify(prop, "list", c, r, got, c.Bool("exp")),
				fmt.Sprintf("list %v, proof of index %d mutated by %s(a=%d, b=%d) -> {Total:%d Index:%d %d aunts}, claim %q, root %x: SimpleProof.Verify %s (%v), spec %v",
					ids, i, c.Str("cls"), c.Int("a"), c.Int("b"), p.Total, p.Index, len(p.Aunts), claim, r, verdict(err), err, c.Bool("exp"))}
		}
	}
	return nil
}

// mapCase: SimpleProofsFromMap; position j holds key "key-j" with the value of item j
func mapCase(prop string, c mbt.Step) *result {
	ids := mbt.Ints(c["items"])
	i := c.Int("i")
	keyOf := func(j int) string { return fmt.Sprintf("key-%02d", j) }
	build := func(ids []int) map[string][]byte {
		m := map[string][]byte{}
		for j, x := range ids {
			m[keyOf(j)] = item(x)
		}
		return m
	}
	leafAt := func(j, x int) []byte {
		return merkle.KVPair{Key: []byte(keyOf(j)), Value: tmhash.Sum(item(x))}.Bytes()
	}
	m := build(ids)
	root, proofs, keys := merkle.SimpleProofsFromMap(m)
	if !bytes.Equal(root, merkle.SimpleHashFromMap(m)) || len(keys) != len(ids) || keys[i] != keyOf(i) {
		return &result{prop + ":map:root", fmt.Sprintf("SimpleProofsFromMap and SimpleHashFromMap disagree on %v (keys %v)", ids, keys)}
	}
	p := cloneProof(proofs[keyOf(i)])
	mutate(p, c, func(x int) []byte { return leafAt(i, x) })
	claimItem := ids[i]
	if cls := c.Str("cls"); cls == "item" || cls == "leaf" {
		claimItem = c.Int("a")
	}
	claim := leafAt(i, claimItem)
	r := root
	switch c.Str("cls") {
	case "rootother":
		alt := append([]int{}, ids...)
		alt[c.Int("a")-1] = 99
		r = merkle.SimpleHashFromMap(build(alt))
	case "rootprefix":
		r = merkle.SimpleHashFromMap(build(ids[:c.Int("a")]))
	case "emptyroot":
		r = nil
	}
	var err error
	if pan, val, _ := mbt.Guard(func() { err = p.Verify(r, claim) }); pan {
		return &result{prop + ":map:" + c.Str("cls") + ":panic", fmt.Sprintf("SimpleProof.Verify panicked on case %s: %v", mbt.JS(c), val)}
	}
	if got := err == nil; got != c.Bool("exp") {
		return &result{classify(prop, "map", c, r, got, c.Bool("exp")),
			fmt.Sprintf("map of %v, proof of %q mutated by %s(a=%d, b=%d), claim value item-%d, root %x: SimpleProof.Verify %s (%v), spec %v",
				ids, keyOf(i), c.Str("cls"), c.Int("a"), c.Int("b"), claimItem, r, verdict(err), err, c.Bool("exp"))}
	}
	// the same proof as the ics23 existence proof the multistore hands out (convert.go); only classes that keep
	// the proof well-formed for the conversion
	switch c.Str("cls") {
	case "none", "item", "rootother", "rootprefix", "auntset", "auntswap":
		ep, cerr := merkle.ConvertExistenceProof(p, []byte(keyOf(i)), item(claimItem))
		if cerr != nil {
			if c.Bool("exp") {
				return &result{prop + ":map:convert", fmt.Sprintf("ConvertExistenceProof fails on a valid proof: %v", cerr)}
			}
			return nil
		}
		cp := &ics23.CommitmentProof{Proof: &ics23.CommitmentProof_Exist{Exist: ep}}
		var ok bool
		mbt.Guard(func() { ok = ics23.VerifyMembership(ics23.TendermintSpec, r, cp, []byte(keyOf(i)), item(claimItem)) })
		if ok != c.Bool("exp") {
			return &result{fmt.Sprintf("%s:map-ics23:%s:%v-but-spec-%v", prop, c.Str("cls"), ok, c.Bool("exp")),
				fmt.Sprintf("map of %v, converted existence proof of %q (%s a=%d b=%d) claim item-%d: ics23.VerifyMembership = %v, spec %v", ids, keyOf(i), c.Str("cls"), c.Int("a"), c.Int("b"), claimItem, ok, c.Bool("exp"))}
		}
	}
	return nil
}

func distinct(ids []int) bool {
	seen := map[int]bool{}
	for _, x := range ids {
		if seen[x] {
			return false
		}
		seen[x] = true
	}
	return true
}

func main() {
	f := mbt.ParseFlags()
	var cfg config
	if err := json.Unmarshal([]byte(f.Extra), &cfg); err != nil {
		mbt.Die("bad -x: %v", err)
	}
	behs, err := mbt.ReadBehaviours(f.In)
	if err != nil {
		mbt.Die("%v", err)
	}
	reported := map[string]int{}
	var cases, ok, accepted int
	classes := map[string]bool{}
	for _, b := range behs {
		for _, c := range b {
			classes[c.Str("cls")] = true
			if c.Bool("exp") {
				accepted++
			}
			for mode, fn := range map[string]func(string, mbt.Step) *result{"list": listCase, "map": mapCase} {
				if mode == "map" && (!distinct(mbt.Ints(c["items"])) || (c.Str("cls") == "auntset" && c.Int("b") != 99)) {
					// the leaves of a map carry their keys: equal values at two keys are different leaves, and
					// "the leaf hash of item b" names no leaf of the map
					continue
				}
				cases++
				r := fn(cfg.Prop, c)
				if r == nil {
					ok++
					continue
				}
				if r2 := fn(cfg.Prop, c); r2 == nil || r2.key != r.key {
					mbt.Emit(map[string]any{"kind": "flaky", "first": r.key})
					continue
				}
				reported[r.key]++
				if reported[r.key] <= 2 {
					mbt.Mismatch(r.key, r.what, map[string]any{"part": "simple", "mode": mode, "steps": []mbt.Step{c}})
				}
			}
		}
	}
	if len(behs) > 0 && len(behs[0]) > 2 {
		mbt.Sample(behs[0][:3])
	}
	mbt.Summary(map[string]any{"cases": cases, "replays": cases, "cases_ok": ok, "spec_accepts": accepted, "classes": len(classes)})
	mbt.Flush()
}
