// Driver for C35's second layer (spec/HeightVoteSet.tla): replays TLC behaviours on the real
// cstypes.HeightVoteSet (round tracking, per-peer catch-up rounds, POLInfo).
package main

import (
	"fmt"
	"runtime"
	"sort"
	"sync"
	"sync/atomic"
	"time"

	cstypes "github.com/gnolang/gno/tm2/pkg/bft/consensus/types"
	"github.com/gnolang/gno/tm2/pkg/bft/types"
	"github.com/gnolang/gno/tm2/pkg/crypto/ed25519"
	p2pTypes "github.com/gnolang/gno/tm2/pkg/p2p/types"

	"verifharness/mbt"
)

const chainID = "verif-hvs"

var keys []ed25519.PrivKeyEd25519

func init() {
	for i := 0; i < 6; i++ {
		keys = append(keys, ed25519.GenPrivKeyFromSecret([]byte(fmt.Sprintf("verif-hvs-%d", i))))
	}
	sort.Slice(keys, func(i, j int) bool { return keys[i].PubKey().Address().Compare(keys[j].PubKey().Address()) < 0 })
}

func blockID(name string) types.BlockID {
	if name == "nil" {
		return types.BlockID{}
	}
	h := make([]byte, 32)
	copy(h, []byte("block-"+name))
	ph := make([]byte, 32)
	copy(ph, []byte("parts-"+name))
	return types.BlockID{Hash: h, PartsHeader: types.PartSetHeader{Total: 1, Hash: ph}}
}

func name(b types.BlockID) string {
	for _, n := range []string{"A", "B", "nil"} {
		if blockID(n).Equals(b) {
			return n
		}
	}
	return "?"
}

func replay(beh []mbt.Step, nvals, maxRound int) bool {
	vals := make([]*types.Validator, nvals)
	for i := 0; i < nvals; i++ {
		vals[i] = types.NewValidator(keys[i].PubKey(), 1)
	}
	vs := types.NewValidatorSet(vals)
	hvs := cstypes.NewHeightVoteSet(chainID, 1, vs)
	for k, s := range beh {
		var reply string
		switch s.Act() {
		case "SetRound":
			if p, _, _ := mbt.Guard(func() { hvs.SetRound(s.Int("r")) }); p {
				reply = "panic"
			} else {
				reply = "ok"
			}
		case "AddVote":
			idx := s.Int("v") - 1
			typ := types.PrevoteType
			if s.Str("t") == "precommit" {
				typ = types.PrecommitType
			}
			vote := &types.Vote{Type: typ, Height: 1, Round: s.Int("r"), BlockID: blockID(s.Str("b")), Timestamp: time.Unix(1700000000, 0).UTC(),
				ValidatorAddress: keys[idx].PubKey().Address(), ValidatorIndex: idx}
			sig, _ := keys[idx].Sign(vote.SignBytes(chainID))
			vote.Signature = sig
			added, err := hvs.AddVote(vote, p2pTypes.ID(s.Str("p")))
			switch {
			case err == cstypes.ErrGotVoteFromUnwantedRoundError:
				reply = "unwanted"
			case err != nil:
				if _, ok := err.(*types.VoteConflictingVotesError); ok {
					reply = "conflict"
				} else {
					reply = "err:" + err.Error()
				}
			case added:
				reply = "added"
			default:
				reply = "dup"
			}
		}
		st := s["st"].(map[string]any)
		tracked := []int{}
		for r := 0; r <= maxRound+1; r++ {
			if hvs.Prevotes(r) != nil {
				if hvs.Precommits(r) == nil {
					reply += "+half-round"
				}
				tracked = append(tracked, r)
			}
		}
		pr, pb := hvs.POLInfo()
		polB := "none"
		if pr >= 0 {
			polB = name(pb)
		}
		obs := map[string]any{"round": hvs.Round(), "tracked": tracked, "pol": map[string]any{"r": pr, "b": polB}}
		expT := mbt.Ints(st["tracked"])
		sort.Ints(expT)
		exp := map[string]any{"round": st["round"], "tracked": expT, "pol": st["pol"]}
		if reply != s.Str("reply") || !mbt.Eq(obs, exp) {
			mbt.Mismatch(fmt.Sprintf("C35:HeightVoteSet:%s:%s", s.Act(), s.Str("reply")),
				fmt.Sprintf("step %d %s: reply %q (spec %q); observed %s, spec %s", k, mbt.JS(s), reply, s.Str("reply"), mbt.JS(obs), mbt.JS(exp)),
				map[string]any{"layer": "HeightVoteSet", "nvals": nvals, "steps": beh[:k+1]})
			return false
		}
	}
	return true
}

func main() {
	f := mbt.ParseFlags()
	var nvals, maxRound int
	fmt.Sscanf(f.Extra, "%d,%d", &nvals, &maxRound)
	behs, err := mbt.ReadBehaviours(f.In)
	if err != nil {
		mbt.Die("%v", err)
	}
	var okc, steps int64
	var wg sync.WaitGroup
	nw := runtime.NumCPU()
	for w := 0; w < nw; w++ {
		wg.Add(1)
		go func(w int) {
			defer wg.Done()
			for i := w; i < len(behs); i += nw {
				if replay(behs[i], nvals, maxRound) {
					atomic.AddInt64(&okc, 1)
				}
				atomic.AddInt64(&steps, int64(len(behs[i])))
			}
		}(w)
	}
	wg.Wait()
	if len(behs) > 0 {
		mbt.Sample(behs[len(behs)/2])
	}
	mbt.Summary(map[string]any{"replays": len(behs), "replays_ok": okc, "steps": steps})
	mbt.Flush()
}
